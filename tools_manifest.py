#!/usr/bin/env python3
"""Regenerates MANIFEST.json from the table below (kept as code so that the
manifest stays valid and consistent with what is actually built)."""
import json, sys
na = {
"C01":"Round trip of well-formed call sequences is a pure function of the call sequence: no fault, schedule, crash point or second observer in the statement; deterministic simulation adds nothing but input generation (DESIGN.md §3, §5).",
"C03":"Grammar conformance is for-all-inputs equality with a reference parser (differential testing); corrupt inputs are only more inputs, there is no schedule, clock or fault for a simulator to own.",
"C04":"The register machine's paints are a deterministic function of instruction sequence, raster height and palette; nothing in it depends on a fault, interleaving or observation point.",
"C05":"Path geometry mapping is deterministic arithmetic on the drawing operations; pure function of input.",
"C06":"Elliptical-arc conversion is a numeric property of one function's arguments; pure function of input.",
"C08":"Number encodings are finite/pure input spaces best settled by exhaustive enumeration, which is another technique family; no nondeterminism to simulate.",
"C09":"Colour encodings and blend arithmetic are pure functions over finite spaces (enumeration, not simulation).",
"C11":"The disassembly listing is a pure function of the bytes; its no-panic/termination half on faulted files is already exercised inside C02.",
"C12":"Aspect-preserving placement is three pure float functions.",
"C13":"Metadata values, defaults and rejections are input validation of a pure parser; the 'nothing delivered before metadata is valid' half is decided inside C02.",
"C14":"Palette options are a deterministic fold of option closures over a value; no fault, schedule or history dimension.",
"C15":"Gradient paint is a pure function of (stops, spread, matrix, pixel).",
"C16":"Pixel invariance is a set of metamorphic relations between deterministic renders; no nondeterminism to control.",
"C19":"Generator gradient helpers are a pure function of (arguments, selector state); the selector agreement their read-backs rely on is exercised under C07, not claimed here.",
"C20":"SVG path-data front ends are a pure string-to-calls translation.",
}
checks = {
"C02": dict(level="fault_enumeration", ref="DESIGN.md §5 C02",
  text="Storage-fault simulation on the encoded bytes (seam S1). Every truncation point of every corpus file and every single-byte replacement (quick: 8 value classes per offset; thorough: all 255 other values, i.e. the single-fault space over the 971-file corpus completely) is enumerated, plus every 2-byte (quick) / 3-byte (thorough) instruction stream after two valid headers in styling and drawing mode, seeded 1-4-fault sequences (truncate, bit flip, byte set, zero/drop/duplicate range, splice, framing natural, hostile operand, garbage tail) over corpus, real-Encoder-written and foreign-writer files, random bytes after a header, and nine long repetitive valid shapes measured at n and 4n bytes. Each faulted file is read by all five readers (Decode into recorder / Renderer+recording rasteriser / Encoder, DecodeViewBox, Disassemble; every fourth file also into a DestinationLogger) under invariants panic, hang, oom, input-modified, error-type, early-delivery, first-not-reset, prefix, call-without-byte, raster-bound, linear-work (allocation volume, stack growth, delivered activity and thread CPU time for 4x the input). Evidence, not proof, outside the enumerated sub-space.",
  note="Trusts the Go runtime, the spec-derived metadata validator (used only as delivered => valid) and the recording rasteriser's pen semantics; x/image/vector is not driven with corrupt input. Hang = 20 s without a progress beacon.",
  technique="deterministic simulation: seeded fault injection on a simulated byte store + exhaustive single-fault enumeration over the corpus, invariants per read, tape shrinking and replay"),
"C10": dict(level="fault_enumeration", ref="DESIGN.md §5 C10",
  text="Producer-fault simulation on the Destination seam of the real Encoder (S2): a 4-state reference automaton written from the property text runs in lockstep and is compared through a Bytes probe (plus CSel/NSel/LOD) after every call. For each sampled legal history a protocol fault of each of 7 classes is injected at every position, then a Reset (restart) at later positions followed by a legal tail that must decode to itself; every history up to depth 5 (quick, 1.1 M) / 7 (thorough, 286 M) over a 16-call abstract alphabet is enumerated completely; plus every adjustment value 0..255 on every call that takes one, every suggested-palette layout (4 formats x 1..64 colours) and every mix of viewBox number forms; plus long legal histories (runs of 37-300 identical drawing calls; half of them with off-lattice numbers and the resolution flag assigned at arbitrary points, judged up to the format's quantisation) and seeded histories over the whole alphabet. Each history runs probed, unprobed and on an Encoder reset with default metadata (zero-value).",
  note="Arguments on the dyadic lattice so 'decodes to that history' is bit-exact; error message text is not mirrored (only error-ness, EncodeError type and identity of the first error).",
  technique="deterministic simulation: fault enumeration over crash points of call histories against a reference automaton, seeded histories, tape shrinking and replay"),
"C17": dict(level="fault_enumeration", ref="DESIGN.md §5 C17",
  text="Crash-and-restart simulation of Encoder and Renderer objects: a first use A is aborted at a call index by one of several causes (producer stops mid-path, protocol fault, corrupt/truncated stored file failing mid-decode, completed), the object is restarted by Reset/Decode and a second program B must give exactly the result a fresh object gives (bytes, error, CSel/NSel/LOD; rasteriser log bit for bit incl. paints; pixels with the real vec.Rasterizer); B is sometimes A's own template with a few arguments changed; further uneventful uses (1-3, around 256/512, around 65536 Resets) may lie in between; the second decode may carry WithPalette/WithColorAt options; the real rasteriser's second-use image may already hold pixels and have another size. Sampled (A,B) pairs get every cut of A enumerated for each cause. Also: same calls on two fresh Encoders, Bytes asked twice at the end and at a drawn mid-program point (inside open paths).",
  note="Results are copied before the object is touched again (an earlier Bytes slice aliases the recycled buffer by design). The vec back end is used only on well-formed input with moderate coordinates.",
  technique="deterministic simulation: crash/restart at enumerated call indices with injected abort causes, reused object vs fresh object as reference model, tape shrinking and replay"),
"C07": dict(level="exploration", ref="DESIGN.md §5 C07",
  text="Two-party simulation over an intact byte channel: one abstract program (which may read selectors back and call Generator helpers, so it reacts to what it reads) is run against a Renderer and against an Encoder; after every call the selectors reported by both are compared modulo 64, at every styling-mode call boundary the stream is cut, the prefix decoded by the real decoder into a fresh Renderer whose selectors must equal what the Encoder reported at that point, and the final rasteriser logs and paints of the two pipelines are compared (bit-exact on the lattice; one program in five carries off-lattice numbers at the edges of the number forms and is compared within the format's quantisation). Topologies: direct, via bytes, either behind DestinationLogger, Encoder fresh or reused; plus a relay hop (decoder -> second Encoder -> decoder -> Renderer): the relaying Encoder's selectors must equal those of the Renderer fed by the same decoder, and where the first trip carried every number exactly the second trip must render bit for bit like the direct pipeline.",
  note="No fault is injected: the property is stated for an intact channel. Weakest fit for this technique (see DESIGN.md §3); lattice arguments avoid codec rounding; gradient matrices computed by helpers are compared with 1e-5 relative tolerance.",
  technique="deterministic simulation: seeded histories through two pipeline topologies with stream cuts at every call boundary, lockstep state comparison, tape shrinking and replay"),
"C18": dict(level="exploration", ref="DESIGN.md §4.3, §5 C18",
  text="Seeded interleavings of 2-6 independent pipelines (decode/render/encode/disassemble/colour helpers/generator front ends) at Go-statement granularity: the check copies the tree, inserts a yield before every statement with go/ast, and a baton scheduler driven by the tape decides who runs (PCT-style change points or chaos). Shared, watched inputs: source bytes, palettes, gradient stops, option and transform tables spread into variadic parameters (all with spare capacity, watched up to cap), parsed mdicons.Path values, an initialised render.Gradient; pipelines may keep an Encoder/Renderer alive through two uses; long-lived Renderers borrow recording rasterisers from a shared pool through leases and hand them back between decodes (first decode often cut short inside a path), the <circle> elements of a parsed icon are a shared input. Oracles: each task's result equals its solo result; hashes of all shared inputs and of every package-level variable (generated VerifGlobals, deep reflective hash) are unchanged after every scheduling slice; no call reaches a pooled rasteriser through a lease that was handed back (C18.foreign-call). A second arm runs the same tape-scheduled interleavings in a -race build whose hand-overs the race detector cannot see (//go:norace polling on one P), so that any conflicting unsynchronised accesses by two pipelines are reported, deterministically, as C18.data-race.",
  note="Preemption granularity is the statement, not the memory access; in the normal arm a racy write that changes no result is invisible, which is what the race arm is for (it needs cgo for the -race build; without it the arm is skipped and the evidence says so). The schedule, not the race detector, is the source of every interleaving: the detector only monitors a deterministic execution.",
  technique="deterministic simulation: seeded scheduler over statement-level yields inserted into a scratch copy, solo-run reference results, global/input write detection, tape shrinking and replay"),
}
built = sys.argv[1:]
m = {
 "version":1,
 "setup_cmd":"./check setup",
 "hooks":{
   "guard":"verif",
   "enable":"no hook is committed in /repo: the C18 check copies /repo's working tree to a mktemp directory, inserts scheduler yield calls and a generated VerifGlobals() with go/ast there, and builds the harness with -tags verif against that copy; all other checks build against /repo as it is",
   "baseline_off_cmd":"cd /repo && GOFLAGS=-mod=mod GOPROXY=off GOSUMDB=off go test -vet=off -count=1 ./...",
   "source_commits":[],
   "add_only":True
 },
 "engines":[{"name":"ivgsim","path":"/verif/sim","serves_properties":built,"kind_free_text":"deterministic simulator written for this repository: seeded choice tape (one integer decides everything), fault-injecting byte store, recording Destination/Rasterizer seams, reference automata, baton scheduler over an instrumented scratch copy, tape shrinker and replay"}],
 "checks":[{
   "property_id":p,
   "quick_cmd":"./check %s quick"%p,
   "thorough_cmd":"./check %s thorough"%p,
   "evidence_file":"/verif/evidence/%s.json"%p,
   "replay_cmd_template":"./check replay {path}",
   "engine":"ivgsim",
   "level_claimed":{"category":checks[p]["level"],"text":checks[p]["text"],"design_ref":checks[p]["ref"]},
   "level_note":checks[p]["note"],
   "technique":checks[p]["technique"],
  } for p in built],
 "notes":"Deterministic simulation with fault injection. VERIF_SEED seeds every case; VERIF_REPO points the checks at another tree (self-tests). Exit 2 means build/worker/watchdog trouble, never a verdict. known_findings.json lists open findings (none) and fixed ones (which suppress nothing).",
 "not_applicable":[{"property_id":k,"reason":v} for k,v in sorted(na.items())]
}
json.dump(m,open('/verif/MANIFEST.json','w'),indent=1)
print("manifest: checks for", built)
