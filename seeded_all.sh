#!/usr/bin/env bash
# Re-evaluates every stored seeded change against the current machinery and tree (regression of the catalogue).
# seeded_all.sh [k n]: only the changes whose position in the list is k modulo n (for running n shards side by side).
cd "$(dirname "$0")"
k="${1:-0}"; n="${2:-1}"; i=0
for d in seeded/*/; do
  i=$((i+1)); [ $((i % n)) -eq "$k" ] || continue
  name="$(basename "$d")"
  props="$(python3 -c "import json;m=json.load(open('$d/meta.json'));print(' '.join(sorted(set(c['check'].split()[0] for c in m['checks']),key=lambda p:(p!=m['property'],p))))")"
  ./seeded_eval.sh "$name" $props 2>&1 | sed "s/^/[$name] /"
done
