#!/usr/bin/env bash
# Re-evaluates every stored seeded change against the current machinery and tree (regression of the catalogue).
cd "$(dirname "$0")"
for d in seeded/*/; do
  n="$(basename "$d")"
  props="$(python3 -c "import json;m=json.load(open('$d/meta.json'));print(' '.join(sorted(set(c['check'].split()[0] for c in m['checks']),key=lambda p:(p!=m['property'],p))))")"
  ./seeded_eval.sh "$n" $props 2>&1 | sed "s/^/[$n] /"
done
