#!/usr/bin/env python3
"""Prints the 'what catches what' tables of DESIGN.md §9.5 from a sensitivity log and seeded/*/meta.json."""
import json, glob, re, sys, os
log = sys.argv[1] if len(sys.argv) > 1 else None
print("#### Hand-written mutants (`mutants/*.patch`)\n")
print("| patch | verdict of `check <P> quick` |")
print("|---|---|")
if log and os.path.exists(log):
    seen = {}
    for l in open(log):
        m = re.match(r"SELFTEST ([\w@.-]+): (.*)", l.strip())
        if not m or m.group(1) in ("sensitivity",): continue
        name, rest = m.group(1), m.group(2)
        if name.startswith("neutral"):
            seen.setdefault(name, []).append(rest)
        else:
            inv = re.findall(r"invariant (C\d+\.[\w-]+)", rest)
            seen[name] = "detected: " + ", ".join(sorted(set(inv))) if rest.startswith("detected") else rest[:80]
    for name in sorted(seen):
        v = seen[name]
        if isinstance(v, list):
            ok = all("silent (ok)" in x for x in v)
            v = ("silent for " + ", ".join(x.split()[0] for x in v)) if ok else "; ".join(v)
        print(f"| {name} | {v} |")
print("\n#### Changes written by independent sub-agents (`seeded/<id>/`)\n")
print("| id | property | what it needs to manifest | first evaluation | now |")
print("|---|---|---|---|---|")
for p in sorted(glob.glob("/verif/seeded/*/meta.json")):
    m = json.load(open(p))
    now = "; ".join("%s: %s" % (c["check"].split()[0], "detected (" + ", ".join(sorted(set(re.findall(r"invariant (C\d+\.[\w-]+)", c["invariants"])))) + ")" if c["exit"] == 1 else "exit %d" % c["exit"]) for c in m["checks"])
    first = m.get("first_evaluation") or ("missed, then strengthened" if m.get("note", "").startswith("first evaluation") else ("caught" if m.get("valid") else "n/a"))
    if not m.get("valid"): now = "not a valid breaking change on the current head (see note)"
    print(f"| {m['id']} | {m['property']} | {m.get('needs_to_manifest','')[:230]} | {first} | {now} |")

# summary (to stderr): how first evaluations went
cnt = {}
for p in sorted(glob.glob("/verif/seeded/*/meta.json")):
    m = json.load(open(p))
    if not m.get("valid"):
        k = "not valid on the current head"
    else:
        f = m.get("first_evaluation") or ("missed, then strengthened" if m.get("note", "").startswith("first evaluation") else "caught")
        if f.startswith("caught"): k = "caught at first evaluation"
        elif f.startswith("missed, then"): k = "missed, then strengthened"
        elif f.startswith("missed, not"): k = "missed, not strengthened"
        else: k = "outside the property it was written for; caught by the property it belongs to"
    cnt[k] = cnt.get(k, 0) + 1
print("SUMMARY", cnt, file=sys.stderr)
