#!/usr/bin/env bash
# seeded_eval.sh <name> <PROP> : confirm a seeded change made by a sub-agent in /tmp/seed-<name>,
# store it under /verif/seeded/<name>/ and run the quick check of <PROP> (and optionally others) against it.
set -u
export GOFLAGS=-mod=mod GOPROXY=off GOSUMDB=off GOTOOLCHAIN=local
VERIF="$(cd "$(dirname "$0")" && pwd)"   # the live /verif, or a `vp run` snapshot of it
name="$1"; prop="$2"; shift 2
wt="/tmp/seed-$name"; out="$VERIF/seeded/$name"
mkdir -p "$out"
if [ -d "$wt" ]; then
  # first evaluation: take the change, the demonstration and the write-up out of the agent's worktree
  cd "$wt" || exit 2
  git diff -- . ':!*seeded*' > "$out/patch.diff"
  [ -s "$out/patch.diff" ] || { echo "no source change in $wt"; exit 2; }
  demos="$(git ls-files -o --exclude-standard | grep -i 'seeded.*_test.go' )"
  [ -n "$demos" ] || { echo "no demo test"; exit 2; }
  for d in $demos; do mkdir -p "$out/demo/$(dirname "$d")"; cp "$d" "$out/demo/$d"; done
  [ -f SEEDED.md ] && cp SEEDED.md "$out/SEEDED.md"
else
  # re-evaluation from what is stored under /verif/seeded/<name>
  [ -s "$out/patch.diff" ] || { echo "nothing stored for $name"; exit 2; }
  demos="$(cd "$out/demo" && find . -name '*_test.go' | sed 's#^\./##')"
fi
demodir="./$(dirname "$(echo "$demos" | head -1)")"
# evaluate on a fresh worktree of /repo's CURRENT head (the agent's worktree may predate a fix commit)
ev="/tmp/seedeval-$name-$$"
git -C /repo worktree remove --force "$ev" >/dev/null 2>&1; rm -rf "$ev"
git -C /repo worktree add -q --detach "$ev" HEAD || exit 2
cd "$ev" || exit 2
git apply "$out/patch.diff" || { echo "seeded $name: patch does not apply to the current head"; exit 2; }
cp -r "$out/demo/." "$ev/"
wt="$ev"
# with the change
suite_with="fail"; go build ./... && go test -vet=off -count=1 -skip TestSeededDemo ./... >/dev/null 2>&1 && suite_with="pass"
demo_with="pass"; go test -vet=off -count=1 -run TestSeededDemo "$demodir" >/dev/null 2>&1 || demo_with="fail"
# without the change
git apply -R "$out/patch.diff" || { echo "cannot revert"; exit 2; }
demo_without="fail"; go test -vet=off -count=1 -run TestSeededDemo "$demodir" >/dev/null 2>&1 && demo_without="pass"
git apply "$out/patch.diff" || { echo "cannot re-apply"; exit 2; }
echo "seeded $name: suite with change: $suite_with; demo with change: $demo_with; demo without change: $demo_without"
valid=false; [ "$suite_with" = pass ] && [ "$demo_with" = fail ] && [ "$demo_without" = pass ] && valid=true
results=""
for p in $prop "$@"; do
  log="$(VERIF_REPO="$wt" "$VERIF/check" "$p" quick -no-evidence -verif /tmp/seedout-$name-$$ 2>&1)"; rc=$?
  inv="$(echo "$log" | grep '^invariant' | head -2 | cut -c1-300 | tr '\n' ' ' | sed 's/"/\\"/g')"
  echo "  check $p quick: exit $rc  $inv"
  results="$results{\"check\":\"$p quick\",\"exit\":$rc,\"invariants\":\"$inv\"},"
done
cd "$VERIF"
git -C /repo worktree remove --force "$ev" >/dev/null 2>&1; rm -rf "/tmp/seedout-$name-$$"
[ -n "${SEEDED_NO_META:-}" ] && exit 0
python3 - "$out/meta.json" "$name" "$prop" "$valid" "$suite_with" "$demo_with" "$demo_without" "$demodir" "[${results%,}]" <<'PY'
import json, sys
path, name, prop, valid, sw, dw, dwo, demodir, results = sys.argv[1:10]
try:
    m = json.load(open(path))          # keep hand-written fields (needs_to_manifest, note) of earlier evaluations
except Exception:
    m = {}
m.update({
 "id": name,
 "property": prop,
 "made_by": "independent sub-agent given only the property text and a scratch worktree",
 "valid": valid == "true",
 "confirmed": {"existing_suite_with_change": sw, "demo_with_change": dw, "demo_without_change": dwo},
 "ran": ["go test -vet=off -count=1 -skip TestSeededDemo ./...", "go test -run TestSeededDemo %s (with and without patch.diff)" % demodir,
         "VERIF_REPO=<scratch worktree of /repo's head with patch.diff applied> /verif/check <P> quick"],
 "checks": json.loads(results),
})
m.setdefault("needs_to_manifest", "see SEEDED.md")
json.dump(m, open(path, "w"), indent=1)
PY
