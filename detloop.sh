#!/usr/bin/env bash
for i in $(seq 1 12); do
  for cfg in "3 16" "16 2" "5 4"; do set -- $cfg
    out="$(VERIF_SEED=3 VERIF_WORKERS=$1 ./check C10 quick -no-evidence -verif ./dout -digest -gomaxprocs $2 -scale 0.1 2>&1)"; rc=$?
    echo "run $i workers=$1 gomaxprocs=$2 rc=$rc $(echo "$out" | grep '^DIGEST') $(echo "$out" | grep -c TROUBLE) $(echo "$out" | tail -1 | grep -o 'stopped early.*')"
  done
done
