package props

import (
	"fmt"
	"image"
	"image/color"
	"math"

	"github.com/reactivego/ivg"
	"github.com/reactivego/ivg/decode"
	"github.com/reactivego/ivg/encode"
	"github.com/reactivego/ivg/render"

	"verif/sim/model"
	"verif/sim/report"
	"verif/sim/tape"
	"verif/sim/world"
)

// C07 — rendering directly equals rendering via encode+decode; selectors
// agree. Two parties hold a copy of the decoding machine's selector
// registers: the Encoder (a shadow it hands to producers that read it back)
// and the machine at the far end of the byte channel. The simulator runs one
// reactive program against both ends, compares the two after every event,
// cuts the stream at every call boundary and lets the real decoder say what
// the far end holds at that point, and finally compares what the two
// pipelines made the rasteriser do.

var c07Rects = []image.Rectangle{
	image.Rect(0, 0, 32, 32),
	image.Rect(0, 0, 64, 24),
	image.Rect(10, 20, 58, 44),
	image.Rect(0, 0, 200, 120),
	image.Rect(0, 0, 1, 1),
}

type c07Topology struct {
	rect        image.Rectangle
	logDirect   bool // DestinationLogger in front of the direct Renderer
	logEncoder  bool // DestinationLogger in front of the Encoder
	logDecoded  bool // DestinationLogger between decoder and second Renderer
	reuseEnc    bool // Encoder dirtied by an earlier, aborted graphic
	altLogStyle bool
}

func (tp c07Topology) String() string {
	return fmt.Sprintf("rect=%v logger(direct=%t encoder=%t decoded=%t) encoder-reused=%t", tp.rect, tp.logDirect, tp.logEncoder, tp.logDecoded, tp.reuseEnc)
}

func wrapLog(d ivg.Destination, on, alt bool) ivg.Destination {
	if !on {
		return d
	}
	return &ivg.DestinationLogger{Destination: d, Alt: alt}
}

func ulpClose32(a, b float32, rel float64) bool {
	if math.Float32bits(a) == math.Float32bits(b) {
		return true
	}
	fa, fb := float64(a), float64(b)
	if math.IsNaN(fa) && math.IsNaN(fb) {
		return true
	}
	return math.Abs(fa-fb) <= rel*math.Max(math.Abs(fa), math.Abs(fb))+1e-37 // the floor covers denormals, whose low bits the 4-byte form drops as well
}

// compareCallLogs compares the direct call log with the decoded one.
// Everything structural must be identical; numbers must be bit-equal or
// within the format's quantisation. It returns a description of the first
// structural or beyond-quantisation difference, and whether any number was
// inexact (coordInexact: a coordinate/angle/LOD; regInexact: a register
// value, which happens legitimately for helper-computed gradient matrices).
func compareCallLogs(direct, decoded []world.Op, hiAt []bool) (diff string, structural, coordInexact, rounded, regInexact, vbInexact bool) {
	if len(direct) != len(decoded) {
		n := min(len(direct), len(decoded))
		extra := "<nothing>"
		if n < len(direct) {
			extra = "direct has " + direct[n].String()
		} else if n < len(decoded) {
			extra = "decoded has " + decoded[n].String()
		}
		// still look for an earlier difference
		for i := 0; i < n; i++ {
			if !world.SameCall(exp(direct[i]), &decoded[i]) {
				return fmt.Sprintf("call #%d: direct %s, decoded %s (and %d vs %d calls)", i, direct[i].String(), decoded[i].String(), len(direct), len(decoded)), true, false, false, false, false
			}
		}
		return fmt.Sprintf("%d calls directly, %d calls via bytes; at #%d %s", len(direct), len(decoded), n, extra), true, false, false, false, false
	}
	for i := range direct {
		a, b := exp(direct[i]), &decoded[i]
		if world.SameCall(a, b) {
			continue
		}
		// the same but for numbers?
		a2, b2 := *a, *b
		a2.F, b2.F = [6]float32{}, [6]float32{}
		a2.VB, b2.VB = ivg.ViewBox{}, ivg.ViewBox{}
		if !world.SameCall(&a2, &b2) {
			return fmt.Sprintf("call #%d: direct %s, decoded %s", i, a.String(), b.String()), true, false, false, false, false
		}
		for j := range a.F {
			if math.Float32bits(a.F[j]) == math.Float32bits(b.F[j]) {
				continue
			}
			x, y := float64(a.F[j]), float64(b.F[j])
			if a.K == world.KSetNReg {
				if !ulpClose32(a.F[j], b.F[j], 1.0/(1<<20)) {
					return fmt.Sprintf("call #%d: register value %g decoded as %g (beyond the 30-bit float form)", i, x, y), false, coordInexact, rounded, regInexact, vbInexact
				}
				regInexact = true
				continue
			}
			if ulpClose32(a.F[j], b.F[j], 1.0/(1<<20)) {
				rounded = true // the 4-byte form's rounding, nothing more
				continue
			}
			tol := math.Max(1.0/128+1.0/2048, math.Abs(x)/(1<<20))
			if a.K == world.KSetLOD || (i < len(hiAt) && hiAt[i]) {
				// not a low-resolution path coordinate: a LOD bound is a threshold,
				// and a path started in high-resolution mode is not quantised at all
				tol = math.Abs(x)/(1<<20) + 1e-37
				if math.Abs(x-y) <= 1.0/128+1.0/2048 && diff == "" {
					diff = fmt.Sprintf("call #%d %s: number %g arrives as %g although nothing may quantise it (a LOD bound, or a path started in high-resolution mode)", i, a.K, x, y)
				}
				if math.Abs(x-y) <= 1.0/128+1.0/2048 {
					continue
				}
			}
			if !(math.Abs(x-y) <= tol) {
				return fmt.Sprintf("call #%d %s: number %g decoded as %g (beyond coordinate quantisation)", i, a.K, x, y), false, coordInexact, rounded, regInexact, vbInexact
			}
			coordInexact = true
		}
		if a.K == world.KReset && a.VB != b.VB {
			// the viewBox is not a path coordinate: it is never quantised to 1/64,
			// off the lattice it travels in the 4-byte form
			if ulpClose32(a.VB.MinX, b.VB.MinX, 1.0/(1<<20)) && ulpClose32(a.VB.MinY, b.VB.MinY, 1.0/(1<<20)) &&
				ulpClose32(a.VB.MaxX, b.VB.MaxX, 1.0/(1<<20)) && ulpClose32(a.VB.MaxY, b.VB.MaxY, 1.0/(1<<20)) {
				rounded, vbInexact = true, true
			} else if diff == "" {
				vbInexact = true
				// not structural: the rasteriser comparison below decides, and it
				// gets no extra slack for this
				diff = fmt.Sprintf("call #%d: viewBox %v decoded as %v", i, a.VB, b.VB)
			}
		}
	}
	return diff, false, coordInexact, rounded, regInexact, vbInexact
}

func exp(o world.Op) *world.Op {
	e := expectedCall(o)
	return &e
}

// comparePaint compares two paints by value; gradient transforms are allowed
// the rounding of the 30-bit register form when inexactRegs is set.
func comparePaint(a, b *world.PaintSnap, inexactRegs bool, vb ivg.ViewBox, rect image.Rectangle) string {
	if !inexactRegs {
		if !world.SamePaintExact(a, b) {
			return "paints differ (every register value was carried exactly, so they must be bit-equal)"
		}
		return ""
	}
	if a.Kind != b.Kind || a.Uniform != b.Uniform || a.Shape != b.Shape || a.Spread != b.Spread ||
		len(a.StopColors) != len(b.StopColors) || len(a.StopOffsets) != len(b.StopOffsets) {
		return "paint kind, colour, shape, spread or stop count differ"
	}
	for i := range a.StopColors {
		if a.StopColors[i] != b.StopColors[i] {
			return fmt.Sprintf("stop colour %d differs: %v vs %v", i, a.StopColors[i], b.StopColors[i])
		}
	}
	for i := range a.StopOffsets {
		x, y := a.StopOffsets[i], b.StopOffsets[i]
		if x != y && !(math.Abs(x-y) <= 1e-6) {
			return fmt.Sprintf("stop offset %d differs: %v vs %v", i, x, y)
		}
	}
	// pix2Grad rows are (a/sx, b/sy, c - a*bx - b*by): the error of the third
	// entry scales with the viewBox offsets
	sx := float64(rect.Dx()) / float64(vb.MaxX-vb.MinX)
	sy := float64(rect.Dy()) / float64(vb.MaxY-vb.MinY)
	bx, by := math.Abs(float64(vb.MinX)), math.Abs(float64(vb.MinY))
	// a viewBox off the lattice travels in the 4-byte form (relative 2^-22 per
	// bound); the spans are differences of bounds, so that rounding weighs M/S
	// in the scale factors (M: largest bound, S: smallest span)
	M := math.Max(math.Max(bx, by), math.Max(math.Abs(float64(vb.MaxX)), math.Abs(float64(vb.MaxY))))
	S := math.Min(math.Abs(float64(vb.MaxX-vb.MinX)), math.Abs(float64(vb.MaxY-vb.MinY)))
	relTol := math.Max(1e-5, (1+M/S)/(1<<19))
	for row := 0; row < 2; row++ {
		for col := 0; col < 3; col++ {
			x, y := a.Xf[3*row+col], b.Xf[3*row+col]
			if x == y || (math.IsNaN(x) && math.IsNaN(y)) {
				continue
			}
			scale := math.Max(math.Abs(x), math.Abs(y))
			if col == 2 {
				scale += 2 * (math.Abs(a.Xf[3*row])*math.Abs(sx)*bx + math.Abs(a.Xf[3*row+1])*math.Abs(sy)*by)
			}
			if !(math.Abs(x-y) <= relTol*scale) {
				return fmt.Sprintf("gradient transform entry [%d][%d] differs: %v vs %v", row, col, x, y)
			}
		}
	}
	return ""
}

// compareRaster compares the rasteriser activity of the two pipelines.
// mode 0: every coordinate reached the far end bit for bit, so the logs must
// be bit-equal; mode 1: some number was carried inexactly (within the
// format's quantisation): kinds, order, rectangles and paints only; mode 2:
// the call logs differ structurally (e.g. a redundant call was not written):
// the property speaks about rasteriser activity, so the logs are compared
// with a tolerance of one coordinate quantum per segment since the path
// started.
func compareRaster(a, b []world.RastOp, mode int, regsExact bool, vb ivg.ViewBox, rect image.Rectangle, maxAbs float64) string {
	if len(a) != len(b) {
		n := min(len(a), len(b))
		for i := 0; i < n; i++ {
			if a[i].K != b[i].K {
				return fmt.Sprintf("rasteriser call #%d: %s directly, %s via bytes (%d vs %d calls)", i, a[i].String(), b[i].String(), len(a), len(b))
			}
		}
		return fmt.Sprintf("%d rasteriser calls directly, %d via bytes", len(a), len(b))
	}
	sx := math.Abs(float64(rect.Dx()) / float64(vb.MaxX-vb.MinX))
	sy := math.Abs(float64(rect.Dy()) / float64(vb.MaxY-vb.MinY))
	quantum := math.Max(sx, sy) / 64
	// conditioning of the viewBox: its bounds may have been rounded by the
	// 4-byte form (relative 2^-22), the spans are differences of bounds, so
	// the scale factors carry that rounding weighted by M/S
	M := math.Max(maxAbs, math.Max(math.Max(math.Abs(float64(vb.MinX)), math.Abs(float64(vb.MaxX))), math.Max(math.Abs(float64(vb.MinY)), math.Abs(float64(vb.MaxY)))))
	S := math.Min(math.Abs(float64(vb.MaxX-vb.MinX)), math.Abs(float64(vb.MaxY-vb.MinY)))
	cond := (1 + M/S) / (1 << 19)
	seg := 0
	for i := range a {
		x, y := &a[i], &b[i]
		if x.K != y.K || x.W != y.W || x.H != y.H || x.R != y.R || x.SP != y.SP {
			return fmt.Sprintf("rasteriser call #%d: %s directly, %s via bytes", i, x.String(), y.String())
		}
		if x.K == world.RReset {
			seg = 0
		}
		seg++
		for j := range x.F {
			if math.Float32bits(x.F[j]) == math.Float32bits(y.F[j]) {
				continue
			}
			switch mode {
			case 4:
				// structure and paints only
			case 0:
				return fmt.Sprintf("rasteriser call #%d: %s directly, %s via bytes (every coordinate was carried exactly, so they must be bit-equal)", i, x.String(), y.String())
			case 1:
				// numbers were carried within the format's quantisation; programs
				// with off-lattice numbers use absolute verbs (plus at most a couple
				// of relative steps), so a few quanta bound the difference
				u, v := float64(x.F[j]), float64(y.F[j])
				if math.IsNaN(u) && math.IsNaN(v) {
					continue
				}
				if !(math.Abs(u-v) <= 6*quantum+math.Max(math.Abs(u), math.Abs(v))/(1<<17)+(math.Abs(u)+math.Abs(v))*cond) {
					return fmt.Sprintf("rasteriser call #%d: %s directly, %s via bytes (numbers reached the far end within quantisation, yet the rasteriser coordinates differ by more than a few quanta)", i, x.String(), y.String())
				}
			case 3:
				// every number reached the far end within the rounding of the
				// 4-byte form (relative 2^-22) and no coordinate was quantised to
				// 1/64: the two pipelines may differ by float rounding and nothing
				// else. M bounds the numbers, S the viewBox spans (the scale
				// factors are W/S, so an error in a bound weighs M/S).
				u, v := float64(x.F[j]), float64(y.F[j])
				if math.IsNaN(u) && math.IsNaN(v) {
					continue
				}
				tol := float64(1+seg)*math.Max(sx, sy)*M/(1<<19) + (math.Abs(u)+math.Abs(v))*cond
				if !(math.Abs(u-v) <= tol) {
					return fmt.Sprintf("rasteriser call #%d: %s directly, %s via bytes (no coordinate was quantised: every number reached the far end within the rounding of the 4-byte form, yet the rasteriser coordinates differ by %g, more than float rounding explains (%g))", i, x.String(), y.String(), math.Abs(u-v), tol)
				}
			case 2:
				u, v := float64(x.F[j]), float64(y.F[j])
				if math.IsNaN(u) && math.IsNaN(v) {
					continue
				}
				if !(math.Abs(u-v) <= float64(seg)*quantum+1e-5*math.Max(math.Abs(u), math.Abs(v))+(math.Abs(u)+math.Abs(v))*cond) {
					return fmt.Sprintf("rasteriser call #%d: %s directly, %s via bytes (beyond coordinate quantisation)", i, x.String(), y.String())
				}
			}
		}
		if x.K == world.RDraw {
			if d := comparePaint(&x.Paint, &y.Paint, !regsExact || mode == 2, vb, rect); d != "" {
				return fmt.Sprintf("rasteriser call #%d Draw: %s: %s directly, %s via bytes", i, d, x.String(), y.String())
			}
		}
	}
	return ""
}

// hiResRelay stands in front of a relaying Encoder and switches
// high-resolution mode on as soon as the decoder has reset it (Reset clears
// the flag).
type hiResRelay struct {
	ivg.Destination
	e *encode.Encoder
}

func (h *hiResRelay) Reset(vb ivg.ViewBox, pal [64]color.RGBA) {
	h.Destination.Reset(vb, pal)
	h.e.HighResolutionCoordinates = true
}

func c07Run(ctx *Ctx, t *tape.Tape) *report.Violation {
	st := ctx.Stats
	tp := c07Topology{
		rect:        c07Rects[t.Pick(5, 2, 2, 2, 1)],
		logDirect:   t.Chance(1, 8),
		logEncoder:  t.Chance(1, 8),
		logDecoded:  t.Chance(1, 8),
		reuseEnc:    t.Chance(1, 4),
		altLogStyle: t.Bool(),
	}
	// one program in five carries coordinates off the lattice (edges of the
	// number forms, ties, full-mantissa floats): the codec must round them, and
	// the comparison allows exactly the format's quantisation
	gcfg := world.GenCfg{MaxItems: 10, Abstract: true, EncOnly: true, Observers: true, ForceReset: true, LongRuns: 3, ManyStops: true}
	if t.Chance(1, 5) {
		gcfg.OffLattice, gcfg.LongRuns = true, 0
	}
	prog := world.GenProgram(t, gcfg)
	// the cut check decodes the whole prefix at every styling-mode boundary:
	// bound the number of cuts (not the length of paths, inside which there is
	// at most one cut)
	const maxCuts = 150
	cutsDone := 0
	midPathCut := -1
	if t.Chance(1, 2) {
		modes := modesOf(prog)
		var open []int
		for i := 1; i <= len(prog); i++ {
			if modes[i] {
				open = append(open, i)
			}
		}
		if len(open) > 0 {
			midPathCut = open[t.Intn(len(open))]
		}
	}
	// A panic is not what C07 is about (termination and safety of the code
	// belong to C02): a case in which the code under test panics is set aside
	// and counted, never reported under this property.
	skip := func(where string) *report.Violation {
		if st != nil {
			st.Add("cases_set_aside_because_the_code_panicked", 1)
		}
		return nil
	}
	fail := func(v *report.Violation) *report.Violation {
		v.Trace = append([]string{"topology: " + tp.String()}, world.FormatOps(prog, 70)...)
		v.Signature = v.Invariant
		return v
	}

	// party 1: Renderer fed directly
	z1 := &world.RecRaster{}
	var r1 render.Renderer
	r1.SetRasterizer(z1, tp.rect)
	t1 := world.Target{Dst: wrapLog(&r1, tp.logDirect, tp.altLogStyle), Adjs: map[float32]uint8{}}
	// party 2: Encoder
	var e encode.Encoder
	if tp.reuseEnc {
		dirty := world.GenProgram(t, world.GenCfg{MaxItems: 4, EncOnly: true, Dirty: true})
		world.Run(world.Target{Dst: &e, Enc: &e}, dirty[:biasedCut(t, dirty)])
	}
	t2 := world.Target{Dst: wrapLog(&e, tp.logEncoder, tp.altLogStyle), Enc: &e, Adjs: map[float32]uint8{}}
	// a plain recorder fed directly: the reference call log
	d1 := &world.RecDest{}
	t3 := world.Target{Dst: d1, Adjs: map[float32]uint8{}}

	m := &model.EncoderModel{}
	sawIncr, nontrivial := false, false
	// per delivered call: was its path started in high-resolution mode?
	var hiAt []bool
	hiNow, pathHi := false, false
	var vb ivg.ViewBox
	for i := range prog {
		o := &prog[i]
		ctx.Beat()
		var res1, res2 world.StepResult
		if p, _, msg := guard(func() { res1 = world.Apply(t1, o) }); p {
			_ = msg
			return skip("direct Renderer")
		}
		if p, _, msg := guard(func() { res2 = world.Apply(t2, o) }); p {
			_ = msg
			return skip("Encoder")
		}
		n0 := len(d1.Calls)
		world.Apply(t3, o)
		switch o.K {
		case world.KSetHiRes:
			hiNow = o.Incr
		case world.KReset:
			hiNow = false
		}
		for _, c := range d1.Calls[n0:] {
			if c.K == world.KStartPath {
				pathHi = hiNow
			}
			hiAt = append(hiAt, pathHi)
		}
		if o.K == world.KReset {
			vb = o.VB
		}
		if (o.K == world.KSetCReg || o.K == world.KSetNReg) && o.Incr {
			sawIncr = true
		}
		if sawIncr && (o.K >= world.KReadBackC && o.K <= world.KGradRaw) {
			nontrivial = true
		}
		if res1.Err != res2.Err {
			return fail(viol("C07", "sel-lockstep", "step #%d %s: the helper returned %q on the Renderer but %q on the Encoder (it reads the selectors back)", i, o.String(), res1.Err, res2.Err))
		}
		if (o.K == world.KCSel || o.K == world.KNSel) && res1.Ret&63 != res2.Ret&63 {
			return fail(viol("C07", "sel-lockstep", "step #%d %s returned %d on the Renderer, %d on the Encoder", i, o.String(), res1.Ret, res2.Ret))
		}
		ec, en := e.CSel()&63, e.NSel()&63
		if rc, rn := r1.CSel()&63, r1.NSel()&63; ec != rc || en != rn {
			return fail(viol("C07", "sel-lockstep", "after step #%d %s the Encoder reports CSEL=%d NSEL=%d, the Renderer fed the same calls reports CSEL=%d NSEL=%d", i, o.String(), ec, en, rc, rn))
		}
		// the stream cut here: what will the decoding machine hold?
		if o.K < world.KSetHiRes || o.K > world.KLOD {
			c, adj, inc := classOfAbstract(o)
			m.Step(c, adj, inc)
		}
		if (m.State == model.EncStyling && cutsDone < maxCuts) || i+1 == midPathCut {
			cutsDone++
			b, err := e.Bytes()
			if err != nil {
				return fail(viol("C07", "pipeline", "after step #%d %s of a well-formed program the Encoder reports %v", i, o.String(), err))
			}
			var rc render.Renderer
			rc.SetRasterizer(&world.RecRaster{NoSnap: true}, tp.rect)
			var derr error
			if p, _, msg := guard(func() { derr = decode.Decode(&rc, b) }); p {
				_ = msg
				return skip("decoding a stream cut")
			}
			if derr != nil {
				return fail(viol("C07", "pipeline", "the stream cut after step #%d %s does not decode: %v", i, o.String(), derr))
			}
			if rc.CSel()&63 != ec || rc.NSel()&63 != en {
				return fail(viol("C07", "sel-at-cut", "stream cut after step #%d %s: the Encoder reported CSEL=%d NSEL=%d but the decoding machine holds CSEL=%d NSEL=%d at that point of the stream", i, o.String(), ec, en, rc.CSel()&63, rc.NSel()&63))
			}
			if st != nil {
				st.Add("stream_cuts_decoded", 1)
				if i+1 == midPathCut && m.State == model.EncDrawing {
					st.Add("probe_cut_inside_open_path", 1)
				}
			}
		}
	}

	// the whole stream through the byte channel into a second Renderer
	b, err := e.Bytes()
	if err != nil {
		return fail(viol("C07", "pipeline", "the Encoder reports %v for a well-formed program", err))
	}
	final := append([]byte(nil), b...)
	z2 := &world.RecRaster{}
	var r2 render.Renderer
	r2.SetRasterizer(z2, tp.rect)
	d2 := &world.RecDest{}
	var derr error
	if p, _, msg := guard(func() { derr = decode.Decode(wrapLog(&r2, tp.logDecoded, tp.altLogStyle), final) }); p {
		_ = msg
		return skip("decoding into the second Renderer")
	}
	if derr != nil {
		return fail(viol("C07", "pipeline", "the bytes of a well-formed program do not decode: %v", derr))
	}
	_ = decode.Decode(d2, final)
	diff, structural, coordInexact, rounded, regInexact, vbInexact := compareCallLogs(d1.Calls, d2.Calls, hiAt)
	mode := 0
	switch {
	case structural:
		// The property is about rasteriser activity and paints, not about the
		// call log (that is C01/C10): a stream that, say, omits a redundant
		// call is fine as long as it renders the same.
		mode = 2
	case coordInexact:
		mode = 1
	case rounded || diff != "":
		mode = 3
	}
	if vbInexact && mode != 2 {
		// Arcs are turned into curves through a square root that is
		// ill-conditioned for half circles: under a viewBox that was rounded on
		// the way the two pipelines may differ by the square root of that
		// rounding, which no bound of the kind used below describes. Such runs
		// are compared on structure and paints only.
		for i := range d1.Calls {
			if k := d1.Calls[i].K; k == world.KAbsArcTo || k == world.KRelArcTo {
				mode = 4
				if st != nil {
					st.Add("runs_with_arcs_under_a_rounded_viewbox_(structure and paints only)", 1)
				}
				break
			}
		}
	}
	maxAbs := 0.0
	for i := range d1.Calls {
		if k := d1.Calls[i].K; k >= world.KStartPath && k != world.KSetLOD {
			for j, f := range d1.Calls[i].F {
				if (k == world.KAbsArcTo || k == world.KRelArcTo) && (j == 2 || j == 3) {
					continue
				}
				if a := math.Abs(float64(f)); a > maxAbs && !math.IsInf(a, 0) {
					maxAbs = a
				}
			}
		}
	}
	if d := compareRaster(z1.Ops, z2.Ops, mode, !regInexact && !vbInexact, vb, tp.rect, maxAbs); d != "" {
		if diff != "" {
			d += "; the calls that reach the far end differ from the calls made: " + diff
		}
		return fail(viol("C07", "pipeline", "direct rendering and rendering via bytes differ: %s", d))
	}
	if diff != "" && st != nil {
		st.Add("runs_where_call_logs_differ_but_rendering_agrees", 1)
	}
	// A relay: the decoder is itself a producer of Destination calls, and what
	// it delivers for a well-formed program is a well-formed call sequence. It
	// is fed into a second Encoder (a transcoding proxy; high-resolution mode
	// on, so that nothing is quantised a second time) next to the Renderer r2
	// that the same decoder fed the same calls: the selectors of the two must
	// agree, the Encoder must accept the sequence, and where the first trip
	// carried every number exactly, the picture after the second trip must be
	// bit for bit the direct one.
	{
		var e2 encode.Encoder
		var rerr error
		if p, _, msg := guard(func() { rerr = decode.Decode(&hiResRelay{Destination: &e2, e: &e2}, final) }); p {
			_ = msg
			return skip("relaying into a second Encoder")
		}
		if rerr == nil {
			b2, err2 := e2.Bytes()
			if err2 != nil {
				return fail(viol("C07", "pipeline", "an Encoder fed by the decoder with the calls of a well-formed program (a relay) reports %v", err2))
			}
			if ec, en, rc, rn := e2.CSel()&63, e2.NSel()&63, r2.CSel()&63, r2.NSel()&63; ec != rc || en != rn {
				return fail(viol("C07", "sel-lockstep", "at the end of the decoded call sequence the relaying Encoder reports CSEL=%d NSEL=%d, the Renderer fed the same calls by the same decoder reports CSEL=%d NSEL=%d", ec, en, rc, rn))
			}
			if mode == 0 && !regInexact && !vbInexact {
				z3 := &world.RecRaster{}
				var r3 render.Renderer
				r3.SetRasterizer(z3, tp.rect)
				var d3err error
				second := append([]byte(nil), b2...)
				if p, _, msg := guard(func() { d3err = decode.Decode(&r3, second) }); p {
					_ = msg
					return skip("decoding the relayed stream")
				}
				if d3err != nil {
					return fail(viol("C07", "pipeline", "the bytes written by a relaying Encoder for the decoded calls of a well-formed program do not decode: %v", d3err))
				}
				if d := compareRaster(z1.Ops, z3.Ops, 0, true, vb, tp.rect, maxAbs); d != "" {
					return fail(viol("C07", "pipeline", "every number of this program was carried exactly by the first trip through the byte channel, yet after a second trip (decoder -> Encoder -> decoder -> Renderer) rendering differs from direct rendering: %s", d))
				}
				if st != nil {
					st.Add("relay_second_trip_compared_bit_exact", 1)
				}
			}
			if st != nil {
				st.Add("relay_runs", 1)
			}
		}
	}
	ctx.Fold(fnvAdd(fnv(final), uint64(len(z1.Ops))))
	if st != nil {
		st.Add("evaluations", 1)
		st.Add("steps", int64(len(prog)))
		st.Add("raster_calls_compared", int64(len(z1.Ops)))
		if coordInexact {
			st.Add("codec_inexact_coordinates", 1)
		}
		if gcfg.OffLattice {
			st.Add("off_lattice_programs", 1)
		}
		if regInexact {
			st.Add("runs_with_rounded_register_values", 1)
		}
		if nontrivial {
			st.Distinct(hashOps(prog))
			st.Add("probe_incr_write_then_readback_or_helper", 1)
		}
		if tp.logDirect || tp.logEncoder || tp.logDecoded {
			st.Add("topology_with_logger", 1)
		}
		if tp.reuseEnc {
			st.Add("topology_encoder_reused", 1)
		}
		for _, o := range z1.Ops {
			if o.K == world.RDraw && o.Paint.Kind == "gradient" {
				st.Add("probe_gradient_painted", 1)
				break
			}
		}
		if st.WantSample(5) && nontrivial {
			st.Sample(5, map[string]interface{}{"topology": tp.String(), "program": world.FormatOps(prog, 30), "bytes": len(final), "rasteriser_calls": len(z1.Ops)})
		}
	}
	return nil
}

// classOfAbstract maps a program step (including abstract ones) onto the
// protocol alphabet: helper steps are styling, path-data steps open and end
// a path themselves.
func classOfAbstract(o *world.Op) (model.Class, uint8, bool) {
	switch o.K {
	case world.KReadBackC, world.KReadBackN, world.KGradLinear, world.KGradCircular, world.KGradElliptical, world.KGradRaw:
		return model.ClsSelector, 0, false
	case world.KPathData, world.KMDPath, world.KMDIcon:
		return model.ClsSelector, 0, false // starts and ends its own path: net effect none
	}
	return classOf(o)
}

func init() {
	register(&Property{
		ID:    "C07",
		Level: "exploration",
		Cases: func(ctx *Ctx) int {
			if ctx.Tier == "thorough" {
				return 15000000
			}
			return 500000
		},
		Run: c07Run,
		Describe: func(tier string, s *report.Stats, cases int) Evidence {
			return Evidence{
				Rule: "A case is one well-formed reactive program (Reset, selector writes with values that wrap at 0/63 and out-of-range values, incrementing and plain register writes with ADJ 0..6, selector read-backs whose result is written back, CSel/NSel observer calls, Generator gradient helpers, SetPathData and mdicons.ParsePathData strings, hand-written gradients, paths with run-length groups past the 16/32 limits, resolution flag) run independently against a Renderer+recording rasteriser, an Encoder and a plain recorder, under a drawn topology (DestinationLogger in front of any party, Encoder fresh or dirtied by an aborted earlier graphic, five rectangles). After every step the selectors of Encoder and Renderer are compared mod 64 and helper errors compared; after every step that leaves the protocol in styling mode (and at one drawn point inside an open path) the stream is cut, decoded by the real decoder into a fresh Renderer, and its selectors compared with what the Encoder reported; at the end the call logs and rasteriser logs of the two pipelines are compared; finally the decoder relays the stream into a second Encoder (selectors compared with the Renderer fed by the same decoder; where the first trip was exact, a second decode must render bit for bit like the direct pipeline). No fault is injected: the property is stated for an intact channel. distinct_nontrivial = hash-bitmap count of distinct programs with an incrementing register write followed later by a read-back or helper call.",
				Extra: map[string]interface{}{
					"fault_kinds_fired":     "none (by the property's own statement: intact channel)",
					"program_steps":         s.Counters["steps"],
					"stream_cuts_decoded":   s.Counters["stream_cuts_decoded"],
					"raster_calls_compared": s.Counters["raster_calls_compared"],
					"runs_with_rounded_register_values_(helper-computed gradient matrix; transform compared with 1e-5 tolerance)": s.Counters["runs_with_rounded_register_values"],
					"off_lattice_programs": s.Counters["off_lattice_programs"],
					"runs_with_inexact_coordinates_(carried within the format's quantisation; rasteriser coordinates compared within a few quanta)": s.Counters["codec_inexact_coordinates"],
					"runs_where_call_logs_differ_structurally_but_rendering_agrees":                                                                 s.Counters["runs_where_call_logs_differ_but_rendering_agrees"],
					"cases_set_aside_because_the_code_panicked_(not this property's business; C02 reports panics)":                                  s.Counters["cases_set_aside_because_the_code_panicked"],
					"topologies": map[string]int64{"with a DestinationLogger": s.Counters["topology_with_logger"], "Encoder reused": s.Counters["topology_encoder_reused"], "relay hop (decoder -> second Encoder; its selectors vs the Renderer's)": s.Counters["relay_runs"], "relay hop decoded again and compared bit for bit with direct rendering (first trip exact)": s.Counters["relay_second_trip_compared_bit_exact"]},
					"reach_probes": map[string]int64{
						"incrementing write followed by read-back/helper": s.Counters["probe_incr_write_then_readback_or_helper"],
						"a gradient was actually painted":                 s.Counters["probe_gradient_painted"],
						"stream cut inside an open path":                  s.Counters["probe_cut_inside_open_path"],
					},
					"simulated_time": "none; the unit is one producer step",
					"components": map[string]string{
						"real": "encode.Encoder, decode.Decode, render.Renderer + Gradient, generate.Generator (SetGradient family, SetPathData), mdicons.ParsePathData, ivg.DestinationLogger",
						"stub": "program generator, recording Destination (reference call log with its own selector model), recording Rasterizer, protocol automaton used to find styling-mode boundaries",
					},
				},
				Assumptions: []string{
					"numbers lie on the dyadic lattice of their slot so that coordinates must be bit-equal in the two pipelines; the one non-lattice quantity, the gradient matrix computed by the helpers, is compared with a 1e-5 relative tolerance scaled by the viewBox offsets",
					"programs start with Reset (a Renderer has no usable zero value) and use valid viewBoxes and premultiplied palettes",
					"os.Stdout is /dev/null so that DestinationLogger output is discarded",
				},
			}
		},
	})
}
