package props

import (
	"bytes"
	"fmt"
	"image"
	"image/color"
	"image/draw"

	"github.com/reactivego/ivg"

	"github.com/reactivego/ivg/decode"
	"github.com/reactivego/ivg/encode"
	"github.com/reactivego/ivg/raster/vec"
	"github.com/reactivego/ivg/render"

	"verif/sim/model"
	"verif/sim/report"
	"verif/sim/tape"
	"verif/sim/world"
)

// C17 — Encoders and Renderers carry no state across Reset; output is
// deterministic. The simulated event is crash-and-restart: a first use A of
// an object is aborted at some call index by some cause, the object is
// restarted (Reset / Decode) and a second program B must behave exactly as
// on a fresh object. Nothing is durable, so nothing may survive.

const (
	c17Enc      = iota // Encoder reuse, drawn cuts, 1..3 abort/restart rounds
	c17Rend            // Renderer + recording rasteriser reuse, drawn cuts, 1..3 rounds
	c17Vec             // Renderer + real vec.Rasterizer reuse, pixels
	c17Twice           // same calls twice on fresh objects; Bytes twice
	c17EncEnum         // one (A,B): every cut of A x every cause (Encoder)
	c17RendEnum        // one (A,B): every cut of A x every cause (Renderer)
)

type abortCause uint8

const (
	causeStop      abortCause = iota // producer simply stops calling
	causeFault                       // producer violates the protocol (Encoder goes into error)
	causeBytesKept                   // producer stops, takes Bytes and keeps the slice
	causeDecodeErr                   // A arrives through Decode from a faulted stored file
	causeComplete                    // A runs to its end
	nCauses
)

var causeNames = [...]string{"producer-stops", "protocol-fault", "stops-and-keeps-Bytes", "decode-of-faulted-file", "complete"}

func (c abortCause) String() string { return causeNames[c] }

// encodeOps writes prog with a separate fresh Encoder (the "other machine"
// that produced the stored file).
func encodeOps(prog []world.Op) []byte {
	var e encode.Encoder
	world.Run(world.Target{Dst: &e, Enc: &e}, prog)
	b, err := e.Bytes()
	if err != nil {
		return nil
	}
	return append([]byte(nil), b...)
}

// biasedCut draws an abort point: two thirds of the draws land where
// in-flight state is largest — right after StartPath, inside a run of the
// same verb (pending, unflushed arguments), right after an incrementing
// register write, after SetLOD, between the two halves of a smooth pair.
func biasedCut(t *tape.Tape, a []world.Op) int {
	if len(a) == 0 {
		return 0
	}
	if t.Chance(2, 3) {
		var cand []int
		for i := 1; i <= len(a); i++ {
			p := &a[i-1]
			switch {
			case p.K == world.KStartPath, p.K == world.KSetLOD,
				(p.K == world.KSetCReg || p.K == world.KSetNReg) && p.Incr,
				i < len(a) && a[i].K == p.K && p.K.IsDraw(),
				p.K >= world.KAbsSmoothQuadTo && p.K <= world.KRelCubeTo:
				cand = append(cand, i)
			}
		}
		if len(cand) > 0 {
			return cand[t.Intn(len(cand))]
		}
	}
	return t.Intn(len(a) + 1)
}

func openPathAt(a []world.Op, cut int) bool {
	m := &model.EncoderModel{}
	for i := 0; i < cut && i < len(a); i++ {
		c, adj, inc := classOf(&a[i])
		m.Step(c, adj, inc)
	}
	return m.State == model.EncDrawing
}

func faultedFile(t *tape.Tape, prog []world.Op) ([]byte, []string) {
	b := encodeOps(prog)
	var enabled [world.NFaultKinds]bool
	for k := range enabled {
		enabled[k] = true
	}
	enabled[world.FGarbageTail] = false
	var notes []string
	n := 1 + t.Intn(2)
	for i := 0; i < n; i++ {
		var f world.Fault
		b, f = world.Inject(t, b, world.ScanMarks(b), nil, enabled)
		notes = append(notes, "fault on the stored file: "+f.String())
	}
	return b, notes
}

// abortEncoder drives the first use of e and aborts it.
func abortEncoder(t *tape.Tape, e *encode.Encoder, a []world.Op, cut int, cause abortCause) (notes []string, kept []byte) {
	tgt := world.Target{Dst: e, Enc: e}
	switch cause {
	case causeStop:
		world.Run(tgt, a[:cut])
	case causeFault:
		world.Run(tgt, a[:cut])
		f, what := faultOp(t, t.Intn(c10FaultClasses), openPathAt(a, cut))
		world.Apply(tgt, &f)
		notes = append(notes, "fault: "+what+": "+f.String())
		if t.Bool() && cut < len(a) {
			world.Run(tgt, a[cut:min(cut+3, len(a))])
		}
	case causeBytesKept:
		world.Run(tgt, a[:cut])
		kept, _ = e.Bytes()
		if t.Bool() {
			// the holder of the result does with it what it likes: here it
			// masks the bytes in place. Bytes hands out the Encoder's own buffer,
			// so this scribbles over memory the Encoder will recycle — which
			// must not matter, because Reset rewrites everything from offset 0
			for i := range kept {
				kept[i] ^= 0xa5
			}
			notes = append(notes, "the kept Bytes result was overwritten in place by its holder")
		}
	case causeDecodeErr:
		b, n := faultedFile(t, a)
		notes = n
		_ = decode.Decode(e, b)
	case causeComplete:
		world.Run(tgt, a)
	}
	return
}

type encOutcome struct {
	b          []byte
	err        error
	cSel, nSel uint8
	lod        [2]uint32
	hi         bool
}

func encOutcomeOf(e *encode.Encoder) encOutcome {
	b, err := e.Bytes()
	l0, l1 := e.LOD()
	return encOutcome{b: append([]byte(nil), b...), err: err, cSel: e.CSel(), nSel: e.NSel(), lod: [2]uint32{float32bits(l0), float32bits(l1)}, hi: e.HighResolutionCoordinates}
}

func (a encOutcome) diff(b encOutcome) string {
	switch {
	case (a.err != nil) != (b.err != nil) || (a.err != nil && a.err != b.err):
		return fmt.Sprintf("Bytes error %v vs %v", a.err, b.err)
	case !bytes.Equal(a.b, b.b):
		i := 0
		for i < len(a.b) && i < len(b.b) && a.b[i] == b.b[i] {
			i++
		}
		return fmt.Sprintf("bytes differ at offset %d (%d vs %d bytes): …%x vs …%x", i, len(a.b), len(b.b), a.b[i:min(i+8, len(a.b))], b.b[i:min(i+8, len(b.b))])
	case a.cSel != b.cSel || a.nSel != b.nSel:
		return fmt.Sprintf("CSel/NSel %d/%d vs %d/%d", a.cSel, a.nSel, b.cSel, b.nSel)
	case a.lod != b.lod:
		return fmt.Sprintf("LOD bits %08x,%08x vs %08x,%08x", a.lod[0], a.lod[1], b.lod[0], b.lod[1])
	case a.hi != b.hi:
		return fmt.Sprintf("HighResolutionCoordinates %t vs %t", a.hi, b.hi)
	}
	return ""
}

// idleUses draws how many further, uneventful uses (a Reset with the default
// metadata and nothing else) lie between the first use and the one that is
// compared with a fresh object: mostly none, sometimes a few, sometimes a
// number around a power of 256 (where a generation counter kept in a narrow
// integer comes round again).
func idleUses(t *tape.Tape) int {
	if !t.Chance(1, 3) {
		return 0
	}
	switch t.Pick(12, 12, 1) {
	case 0:
		return 1 + t.Intn(3)
	case 1:
		return []int{254, 255, 256, 257, 510, 511, 512, 513}[t.Intn(8)]
	}
	return 65534 + t.Intn(4)
}

// encReuse: one reused Encoder against a fresh one.
func encReuse(ctx *Ctx, t *tape.Tape, a, b []world.Op, cut int, cause abortCause, pre func(*encode.Encoder)) *report.Violation {
	var e encode.Encoder
	if pre != nil {
		pre(&e)
	}
	var notes []string
	var v *report.Violation
	if p, _, msg := guard(func() { notes, _ = abortEncoder(t, &e, a, cut, cause) }); p {
		_ = msg // a panic as such is C02's business; nothing about reuse is concluded
		if ctx.Stats != nil {
			ctx.Stats.Add("cases_set_aside_because_the_code_panicked", 1)
		}
		return nil
	}
	if k := idleUses(t); k > 0 {
		for i := 0; i < k; i++ {
			e.Reset(ivg.DefaultViewBox, ivg.DefaultPalette)
		}
		notes = append(notes, fmt.Sprintf("%d further uneventful uses (Reset with the default metadata) in between", k))
		if ctx.Stats != nil {
			ctx.Stats.Add("cases_with_idle_uses_in_between", 1)
		}
	}
	if t.Chance(1, 3) {
		e.HighResolutionCoordinates = true // flag set right before the restart: Reset must clear it
		notes = append(notes, "HighResolutionCoordinates=true set before Reset")
	}
	var got, want encOutcome
	pReused, _, msgReused := guard(func() {
		world.Run(world.Target{Dst: &e, Enc: &e}, b)
		got = encOutcomeOf(&e)
	})
	var f encode.Encoder
	pFresh, _, _ := guard(func() {
		world.Run(world.Target{Dst: &f, Enc: &f}, b)
		want = encOutcomeOf(&f)
	})
	if pReused && pFresh {
		if ctx.Stats != nil {
			ctx.Stats.Add("cases_set_aside_because_the_code_panicked", 1)
		}
		return nil
	}
	if pReused != pFresh {
		return viol("C17", "encoder-reuse", "the second use panics on the reused Encoder (%t: %s) but not on a fresh one (%t)", pReused, msgReused, pFresh)
	}
	ctx.Beat()
	ctx.Fold(fnv(got.b))
	if d := got.diff(want); d != "" {
		v = viol("C17", "encoder-reuse", "Encoder reused after Reset differs from a fresh Encoder: %s (first use aborted at call %d of %d by %s)", d, cut, len(a), cause)
		v.Trace = append(v.Trace, fmt.Sprintf("first use A (aborted at %d by %s):", cut, cause))
		v.Trace = append(v.Trace, notes...)
		v.Trace = append(v.Trace, world.FormatOps(a[:min(cut, len(a))], 30)...)
		v.Trace = append(v.Trace, "second use B:")
		v.Trace = append(v.Trace, world.FormatOps(b, 40)...)
		return v
	}
	if ctx.Stats != nil {
		st := ctx.Stats
		st.Add("evaluations", 1)
		st.Add("enc_cause_"+cause.String(), 1)
		if cut < len(a) || cause != causeComplete {
			st.Distinct(fnvAdd(fnvAdd(hashOps(a[:min(cut, len(a))]), uint64(cause)), hashOps(b)))
		}
		if (cause == causeStop || cause == causeBytesKept) && openPathAt(a, cut) {
			st.Add("probe_encoder_aborted_inside_open_path", 1)
		}
	}
	return nil
}

// ---------------------------------------------------------------------------

var c17Rects = []image.Rectangle{
	image.Rect(0, 0, 32, 32),
	image.Rect(0, 0, 64, 24),
	image.Rect(10, 20, 58, 44),
	image.Rect(0, 0, 1, 1),
	image.Rect(0, 0, 200, 120),
	{},
}

// moved returns a rectangle of the same size at another origin (the next
// cell of a sprite sheet): what changes is only the position.
func moved(t *tape.Tape, r image.Rectangle) image.Rectangle {
	return r.Add(image.Pt(t.Range(-40, 40), t.Range(1, 40)))
}

// metadataFor draws the second use's Reset arguments in relation to the
// first use: unrelated (nil), the very same metadata again, the default
// metadata, or Go's zero values (a valid, if degenerate, viewBox 0,0,0,0 and
// an all-transparent palette) — the relations a "same as last time" shortcut
// or a zero-value slip would key on.
func relateMetadata(t *tape.Tape, a, b []world.Op) []world.Op {
	if len(b) == 0 || b[0].K != world.KReset {
		return b
	}
	if t.Chance(1, 8) {
		// The later graphic's palette carries a colour the earlier graphic
		// left in a register — a gradient descriptor if it wrote one — and its
		// first path is filled straight from that palette entry, before any
		// register write. A caller-supplied palette may hold such a value (the
		// decoder would blank it, direct callers and WithPalette do not); on a
		// fresh object it names registers nobody set.
		var cands []world.Op
		for i := range a {
			if a[i].K == world.KSetCReg {
				cands = append(cands, a[i])
			}
		}
		if len(cands) > 0 {
			// prefer the last descriptor written
			pick := cands[t.Intn(len(cands))]
			for i := len(cands) - 1; i >= 0; i-- {
				if rgba, ok := cands[i].C.RGBA(); !ok && rgba.A == 0xff && t.Chance(3, 4) {
					pick = cands[i]
					break
				}
			}
			rgba := pick.C.Resolve(&ivg.DefaultPalette, &ivg.DefaultPalette)
			pal := ivg.DefaultPalette
			if b[0].Pal != nil {
				pal = *b[0].Pal
			}
			j := uint8(t.Intn(64))
			pal[j] = rgba
			b[0].Pal = &pal
			head := []world.Op{b[0],
				{K: world.KSetCSel, U: j},
				{K: world.KStartPath, U: 0, F: [6]float32{world.LoCoord(t), world.LoCoord(t)}},
				{K: world.KAbsLineTo, F: [6]float32{world.LoCoord(t), world.LoCoord(t)}},
				{K: world.KAbsLineTo, F: [6]float32{world.LoCoord(t), world.LoCoord(t)}},
				{K: world.KClosePathEndPath}}
			return append(head, b[1:]...)
		}
	}
	switch t.Pick(6, 2, 1, 2) {
	case 1:
		for i := len(a) - 1; i >= 0; i-- {
			if a[i].K == world.KReset {
				b[0].VB, b[0].Pal = a[i].VB, a[i].Pal
				return b
			}
		}
	case 2:
		pal := ivg.DefaultPalette
		b[0].VB, b[0].Pal = ivg.DefaultViewBox, &pal
	case 3:
		var pal [64]color.RGBA
		if t.Bool() {
			b[0].VB = ivg.ViewBox{}
		}
		if t.Bool() {
			b[0].Pal = &pal
		}
	}
	return b
}

// deliver feeds prog to the Renderer, either by direct calls or through the
// byte channel (Encoder -> Decode), which is how reuse happens in practice.
func deliver(r *render.Renderer, prog []world.Op, viaBytes bool, opts ...decode.DecodeOption) {
	if viaBytes {
		if b := encodeOps(prog); b != nil {
			_ = decode.Decode(r, b, opts...)
			return
		}
	}
	world.Run(world.Target{Dst: r}, prog)
}

func abortRenderer(t *tape.Tape, r *render.Renderer, a []world.Op, cut int, cause abortCause) (notes []string) {
	switch cause {
	case causeDecodeErr:
		b, n := faultedFile(t, a)
		notes = n
		_ = decode.Decode(r, b)
	case causeComplete:
		deliver(r, a, t.Bool())
	default:
		world.Run(world.Target{Dst: r}, a[:cut])
	}
	return
}

func rendReuse(ctx *Ctx, t *tape.Tape, as [][]world.Op, cuts []int, causes []abortCause, b []world.Op, rect image.Rectangle, viaBytes bool, rect2 *image.Rectangle) *report.Violation {
	z := &world.RecRaster{}
	// the Renderer lives in a pool (a slice of values) that may grow between
	// the uses: the value then moves to another address and its old place is
	// cleared, as happens to any element of a slice that is appended to
	pool := make([]render.Renderer, 1)
	r := &pool[0]
	var notes []string
	if t.Chance(1, 6) {
		// the earliest history of the object may have used another kind of
		// rasteriser altogether: the real one, drawing a small tame graphic
		vr := vec.NewRasterizer(image.NewRGBA(image.Rect(0, 0, 16, 16)))
		r.SetRasterizer(vr, image.Rect(0, 0, 16, 16))
		r.Reset(ivg.DefaultViewBox, ivg.DefaultPalette)
		r.StartPath(0, -8, -8)
		r.RelLineTo(16, 0)
		r.RelQuadTo(0, 8, -8, 16)
		if t.Bool() {
			r.ClosePathEndPath()
		}
		notes = append(notes, "before everything else the Renderer drew a small square into a real vec.Rasterizer")
	}
	r.SetRasterizer(z, rect)
	disabledAtAbort := false
	for i := range as {
		i := i
		if p, _, msg := guard(func() { notes = append(notes, abortRenderer(t, r, as[i], cuts[i], causes[i])...) }); p {
			// a panic of the first use is C02's business only for decoded input;
			// direct out-of-order calls cannot happen here (A is well formed)
			_ = msg // a panic as such is C02's business
			if ctx.Stats != nil {
				ctx.Stats.Add("cases_set_aside_because_the_code_panicked", 1)
			}
			return nil
		}
		_ = disabledAtAbort
	}
	if k := idleUses(t); k > 0 {
		for i := 0; i < k; i++ {
			r.Reset(ivg.DefaultViewBox, ivg.DefaultPalette)
		}
		notes = append(notes, fmt.Sprintf("%d further uneventful uses (Reset with the default metadata) in between", k))
		if ctx.Stats != nil {
			ctx.Stats.Add("cases_with_idle_uses_in_between", 1)
		}
	}
	if t.Chance(1, 6) {
		old := pool
		pool = append(pool, render.Renderer{}) // capacity 1: the values move to a new array
		old[0] = render.Renderer{}
		r = &pool[0]
		notes = append(notes, "the Renderer value moved to another address between the uses (its pool grew; the old place was cleared)")
		if ctx.Stats != nil {
			ctx.Stats.Add("cases_where_the_renderer_value_moved_between_uses", 1)
		}
	}
	if rect2 != nil {
		r.SetRasterizer(z, *rect2)
		rect = *rect2
	}
	// a decode of the second graphic may come with the caller's own palette
	// (which may hold anything, also colours that are not premultiplied and
	// gradient-looking entries) and single-colour overrides
	var opts []decode.DecodeOption
	if viaBytes && t.Chance(1, 3) {
		if t.Bool() {
			pal := *world.GenPalette(t)
			for j := t.Intn(4); j > 0; j-- {
				pal[t.Intn(64)] = color.RGBA{uint8(t.Intn(256)), uint8(t.Intn(256)), uint8(t.Intn(256)), uint8(t.Intn(3) * 0x7f)}
			}
			opts = append(opts, decode.WithPalette(pal))
		}
		if t.Bool() || len(opts) == 0 {
			opts = append(opts, decode.WithColorAt(t.Intn(64), color.NRGBA{uint8(t.Intn(256)), uint8(t.Intn(256)), uint8(t.Intn(256)), uint8(t.Intn(256))}))
		}
		notes = append(notes, "second use decoded with WithPalette/WithColorAt options")
	}
	mark := len(z.Ops)
	pReused, _, msgReused := guard(func() { deliver(r, b, viaBytes, opts...) })
	z2 := &world.RecRaster{}
	var r2 render.Renderer
	r2.SetRasterizer(z2, rect)
	pFresh, _, _ := guard(func() { deliver(&r2, b, viaBytes, opts...) })
	if pReused && pFresh {
		if ctx.Stats != nil {
			ctx.Stats.Add("cases_set_aside_because_the_code_panicked", 1)
		}
		return nil
	}
	if pReused != pFresh {
		return viol("C17", "renderer-reuse", "the second use panics on the reused Renderer (%t: %s) but not on a fresh one (%t)", pReused, msgReused, pFresh)
	}
	got, want := z.Ops[mark:], z2.Ops
	ctx.Beat()
	ctx.Fold(uint64(len(want)))
	if d := world.FirstRastDiffExact(got, want); d >= 0 {
		g, w := "<nothing>", "<nothing>"
		if d < len(got) {
			g = got[d].String()
		}
		if d < len(want) {
			w = want[d].String()
		}
		v := viol("C17", "renderer-reuse", "Renderer reused for another graphic differs from a fresh Renderer at rasteriser call #%d: %s vs %s (%d vs %d calls; last first use aborted at call %d of %d by %s)", d, g, w, len(got), len(want), cuts[len(cuts)-1], len(as[len(as)-1]), causes[len(causes)-1])
		for i := range as {
			v.Trace = append(v.Trace, fmt.Sprintf("first use A%d (aborted at %d by %s):", i, cuts[i], causes[i]))
			n := cuts[i]
			if causes[i] == causeComplete || causes[i] == causeDecodeErr {
				n = len(as[i])
			}
			v.Trace = append(v.Trace, world.FormatOps(as[i][:min(n, len(as[i]))], 30)...)
		}
		v.Trace = append(v.Trace, notes...)
		v.Trace = append(v.Trace, fmt.Sprintf("second use B (via bytes: %t, rect %v):", viaBytes, rect))
		v.Trace = append(v.Trace, world.FormatOps(b, 40)...)
		return v
	}
	if ctx.Stats != nil {
		st := ctx.Stats
		st.Add("evaluations", 1)
		st.Add("raster_calls_compared", int64(len(want)))
		last := len(as) - 1
		st.Add("rend_cause_"+causes[last].String(), 1)
		h := hashOps(b)
		for i := range as {
			h = fnvAdd(fnvAdd(h, hashOps(as[i][:min(cuts[i], len(as[i]))])), uint64(causes[i]))
		}
		if cuts[last] < len(as[last]) || causes[last] != causeComplete {
			st.Distinct(h)
		}
		if len(want) > 0 {
			st.Add("probe_second_use_drew_something", 1)
		}
		for _, o := range want {
			if o.K == world.RDraw && o.Paint.Kind == "gradient" {
				st.Add("probe_second_use_painted_gradient", 1)
				break
			}
		}
		if causes[last] == causeStop && openPathAt(as[last], cuts[last]) {
			st.Add("probe_renderer_aborted_inside_open_path", 1)
		}
	}
	return nil
}

// vecReuse: the real raster/vec back end, pixels compared. Only well-formed
// first uses with moderate coordinates reach it.
func vecReuse(ctx *Ctx, t *tape.Tape, a, b []world.Op, cut int, w, h int, op draw.Op) *report.Violation {
	rect := image.Rect(0, 0, w, h)
	img0 := image.NewRGBA(rect)
	vz := vec.NewRasterizer(img0)
	tz := &world.TameRaster{Rasterizer: vz, Limit: 50000}
	var r render.Renderer
	r.SetRasterizer(tz, rect)
	// One case in eight: the rasteriser is armed with draw.Src when it is
	// made (the constructor idiom), the first use runs to completion on an
	// empty rectangle (a clipped-away slot: every Draw covers nothing), and
	// nothing re-arms the rasteriser afterwards. The armed operator is
	// consumed by the first Draw whatever it covers, so the second use must
	// composite with Over like a fresh, unarmed rasteriser.
	armedFirst := t.Chance(1, 8)
	if armedFirst {
		vz.DrawOp = draw.Src
		r.SetRasterizer(tz, image.Rectangle{})
		cut = len(a)
	}
	pa, _, _ := guard(func() { world.Run(world.Target{Dst: &r}, a[:cut]) })
	if armedFirst && tz.Draws == 0 {
		return nil // nothing consumed the armed operator: no expectation
	}
	if pa || tz.Bad {
		if ctx.Stats != nil {
			if pa {
				ctx.Stats.Add("vec_backend_panicked_in_first_use", 1)
			} else {
				ctx.Stats.Add("vec_first_use_left_the_tame_range", 1)
			}
		}
		return nil
	}
	// the second use may draw into an image of another size, announced
	// through SetRasterizer (same Renderer, same rasteriser object)
	if t.Bool() {
		w2, h2 := 1+t.Intn(48), 1+t.Intn(48)
		if t.Chance(1, 4) {
			w2, h2 = w+t.Range(-1, 1), h
			if w2 < 1 {
				w2 = 1
			}
		}
		rect = image.Rect(0, 0, w2, h2)
		w, h = w2, h2
	}
	img1 := image.NewRGBA(rect)
	// the destination of the second use need not be blank: half of the time
	// it already holds (the same, in both arms) opaque and translucent pixels,
	// so that Src and Over differ
	var dirt []byte
	if t.Bool() || armedFirst {
		dirt = make([]byte, len(img1.Pix))
		x := uint32(t.Intn(1<<30)) | 1
		for i := 0; i+3 < len(dirt); i += 4 {
			x = x*1664525 + 1013904223
			a := byte(x >> 24)
			if x&0x300 == 0 {
				a = 0xff
			}
			dirt[i+0], dirt[i+1], dirt[i+2], dirt[i+3] = byte(uint32(byte(x>>16))*uint32(a)/255), byte(uint32(byte(x>>8))*uint32(a)/255), byte(uint32(byte(x))*uint32(a)/255), a
		}
		copy(img1.Pix, dirt)
	}
	vz.Dst = img1
	if !armedFirst {
		vz.DrawOp = op
	}
	tz.Hash = 0
	if armedFirst || rect != img0.Bounds() || t.Chance(1, 3) {
		r.SetRasterizer(tz, rect)
	}
	p1, _, m1 := guard(func() { world.Run(world.Target{Dst: &r}, b) })

	img2 := image.NewRGBA(rect)
	copy(img2.Pix, dirt)
	vz2 := vec.NewRasterizer(img2)
	if !armedFirst {
		vz2.DrawOp = op
	}
	tz2 := &world.TameRaster{Rasterizer: vz2, Limit: 50000}
	var r2 render.Renderer
	r2.SetRasterizer(tz2, rect)
	p2, _, m2 := guard(func() { world.Run(world.Target{Dst: &r2}, b) })
	ctx.Beat()
	if p1 != p2 {
		return viol("C17", "renderer-reuse", "with the vec back end the reused pipeline panicked=%t (%s) but the fresh one panicked=%t (%s)", p1, m1, p2, m2)
	}
	if p1 {
		if ctx.Stats != nil {
			ctx.Stats.Add("vec_backend_panicked_in_both_arms", 1)
		}
		return nil
	}
	ctx.Fold(fnv(img2.Pix))
	describe := func(v *report.Violation) *report.Violation {
		v.Trace = append(v.Trace, fmt.Sprintf("first use A (aborted at %d of %d), image %dx%d, DrawOp %v:", cut, len(a), w, h, op))
		v.Trace = append(v.Trace, world.FormatOps(a[:cut], 30)...)
		v.Trace = append(v.Trace, "second use B:")
		v.Trace = append(v.Trace, world.FormatOps(b, 40)...)
		return v
	}
	if tz.Hash != tz2.Hash || tz.Bad != tz2.Bad {
		return describe(viol("C17", "renderer-reuse", "the path segments handed to the vec back end differ between a reused Renderer and a fresh one (segment hash %016x vs %016x)", tz.Hash, tz2.Hash))
	}
	if tz.Bad {
		// identical segment streams, part of which was withheld from x/image/vector
		if ctx.Stats != nil {
			ctx.Stats.Add("evaluations", 1)
			ctx.Stats.Add("vec_second_use_left_the_tame_range_(segments compared, pixels not)", 1)
		}
		return nil
	}
	if !bytes.Equal(img1.Pix, img2.Pix) {
		n, first := 0, -1
		for i := range img1.Pix {
			if img1.Pix[i] != img2.Pix[i] {
				if first < 0 {
					first = i
				}
				n++
			}
		}
		return describe(viol("C17", "renderer-reuse", "pixels differ between a reused Renderer+vec.Rasterizer and fresh ones: %d of %d bytes, first at pixel (%d,%d)", n, len(img1.Pix), (first/4)%w, (first/4)/w))
	}
	if ctx.Stats != nil {
		st := ctx.Stats
		st.Add("evaluations", 1)
		st.Add("vec_pixel_runs", 1)
		nz := 0
		for _, x := range img2.Pix {
			if x != 0 {
				nz++
			}
		}
		if nz > 0 {
			st.Add("probe_vec_second_use_left_pixels", 1)
			st.Distinct(fnvAdd(fnvAdd(hashOps(a[:cut]), hashOps(b)), 77))
		}
	}
	return nil
}

// ---------------------------------------------------------------------------

func genA(t *tape.Tape) []world.Op {
	return world.GenProgram(t, world.GenCfg{MaxItems: 8, Abstract: true, EncOnly: true, Observers: true, Dirty: true})
}

// genBFrom draws the second use: usually an unrelated read-before-write
// program, one time in four the first use's own template with a few
// arguments changed.
func genBFrom(t *tape.Tape, a []world.Op) []world.Op {
	if len(a) > 0 && t.Chance(1, 4) {
		return world.Perturb(t, a)
	}
	return genB(t)
}

func genB(t *tape.Tape) []world.Op {
	return world.GenProgram(t, world.GenCfg{MaxItems: 6, Abstract: true, EncOnly: true, ForceReset: true, ReadFirst: true})
}

// tame reports whether every coordinate of prog is moderate (the vec back
// end is only driven with such programs). It also widens viewBoxes narrower
// than 8 units: golang.org/x/image/vector takes tens of seconds to flatten
// curves that are millions of pixels long, which a 1/64-unit viewBox makes
// out of moderate coordinates.
func tame(prog []world.Op) bool {
	for i := range prog {
		if prog[i].K == world.KReset {
			vb := &prog[i].VB
			if vb.MaxX-vb.MinX < 8 {
				vb.MaxX = vb.MinX + 8
			}
			if vb.MaxY-vb.MinY < 8 {
				vb.MaxY = vb.MinY + 8
			}
		}
		if !prog[i].K.IsDraw() && prog[i].K != world.KStartPath {
			continue
		}
		for _, f := range prog[i].F {
			if f > 1200 || f < -1200 {
				return false
			}
		}
	}
	return true
}

func c17Run(ctx *Ctx, t *tape.Tape) *report.Violation {
	mode := t.Intn(6)
	st := ctx.Stats
	sig := func(v *report.Violation) *report.Violation {
		if v != nil {
			v.Signature = v.Invariant
		}
		return v
	}
	switch mode {
	case c17Enc:
		// 1..3 abort/restart rounds on one Encoder: the earlier rounds happen
		// inside pre, the last one is the (A, cut, cause) that is reported
		rounds := 1 + t.Pick(5, 2, 1)
		type round struct {
			a     []world.Op
			cut   int
			cause abortCause
		}
		var rs []round
		for i := 0; i < rounds; i++ {
			a := genA(t)
			rs = append(rs, round{a, biasedCut(t, a), abortCause(t.Intn(int(nCauses)))})
		}
		hiBefore := t.Chance(1, 4)
		last := rs[len(rs)-1]
		b := genBFrom(t, last.a)
		b = relateMetadata(t, last.a, b)
		v := encReuse(ctx, t, last.a, b, last.cut, last.cause, func(e *encode.Encoder) {
			e.HighResolutionCoordinates = hiBefore
			for _, r := range rs[:len(rs)-1] {
				abortEncoder(t, e, r.a, r.cut, r.cause)
				// restart between rounds
				if len(r.a) > 0 && r.a[0].K == world.KReset {
					world.ApplyBase(e, &r.a[0])
				}
			}
		})
		if v == nil && st != nil && rounds > 1 {
			st.Add("probe_multiple_abort_restart_rounds", 1)
		}
		if v == nil && st != nil && st.WantSample(3) {
			st.Sample(3, map[string]interface{}{"object": "Encoder", "rounds": rounds, "last_first_use_aborted_at": last.cut, "of": len(last.a), "cause": last.cause.String(), "A": world.FormatOps(last.a[:min(last.cut, len(last.a))], 10), "B": world.FormatOps(b, 10)})
		}
		return sig(v)

	case c17EncEnum:
		a := genA(t)
		b := genBFrom(t, a)
		b = relateMetadata(t, a, b)
		if len(a) > 80 && ctx.Tier != "thorough" {
			a = a[:80]
		}
		for cut := 0; cut <= len(a); cut++ {
			for _, cause := range []abortCause{causeStop, causeFault, causeBytesKept} {
				if v := encReuse(ctx, t, a, b, cut, cause, nil); v != nil {
					return sig(v)
				}
			}
		}
		for _, cause := range []abortCause{causeDecodeErr, causeComplete} {
			if v := encReuse(ctx, t, a, b, len(a), cause, nil); v != nil {
				return sig(v)
			}
		}
		if st != nil {
			st.Add("enumerated_AB_pairs_encoder", 1)
		}
		return nil

	case c17Rend, c17RendEnum:
		rect := c17Rects[t.Pick(5, 2, 2, 1, 2, 1)]
		viaBytes := t.Bool()
		var rect2 *image.Rectangle
		switch t.Pick(6, 1, 2) {
		case 1:
			r2 := c17Rects[t.Intn(len(c17Rects))]
			rect2 = &r2
		case 2:
			r2 := moved(t, rect)
			rect2 = &r2
		}
		if mode == c17RendEnum {
			a := genA(t)
			b := genBFrom(t, a)
			if len(a) > 80 && ctx.Tier != "thorough" {
				a = a[:80]
			}
			for cut := 0; cut <= len(a); cut++ {
				if v := rendReuse(ctx, t, [][]world.Op{a}, []int{cut}, []abortCause{causeStop}, b, rect, viaBytes, rect2); v != nil {
					return sig(v)
				}
			}
			for i := 0; i < 4; i++ {
				if v := rendReuse(ctx, t, [][]world.Op{a}, []int{len(a)}, []abortCause{causeDecodeErr}, b, rect, viaBytes, rect2); v != nil {
					return sig(v)
				}
			}
			if v := rendReuse(ctx, t, [][]world.Op{a}, []int{len(a)}, []abortCause{causeComplete}, b, rect, viaBytes, rect2); v != nil {
				return sig(v)
			}
			if st != nil {
				st.Add("enumerated_AB_pairs_renderer", 1)
			}
			return nil
		}
		rounds := 1 + t.Pick(5, 2, 1)
		var as [][]world.Op
		var cuts []int
		var causes []abortCause
		for i := 0; i < rounds; i++ {
			a := genA(t)
			as = append(as, a)
			cuts = append(cuts, biasedCut(t, a))
			causes = append(causes, []abortCause{causeStop, causeStop, causeDecodeErr, causeDecodeErr, causeComplete}[t.Intn(5)])
		}
		b := genBFrom(t, as[len(as)-1])
		b = relateMetadata(t, as[len(as)-1], b)
		v := rendReuse(ctx, t, as, cuts, causes, b, rect, viaBytes, rect2)
		if v == nil && st != nil && rounds > 1 {
			st.Add("probe_multiple_abort_restart_rounds", 1)
		}
		if v == nil && st != nil && st.WantSample(6) && len(st.Samples) >= 3 {
			st.Sample(6, map[string]interface{}{"object": "Renderer+recording rasteriser", "rounds": rounds, "last_first_use_aborted_at": cuts[rounds-1], "of": len(as[rounds-1]), "cause": causes[rounds-1].String(), "rect": rect.String(), "B_via_bytes": viaBytes, "B": world.FormatOps(b, 10)})
		}
		return sig(v)

	case c17Vec:
		a := world.GenProgram(t, world.GenCfg{MaxItems: 6, Abstract: true, Dirty: true, ForceReset: true})
		b := world.GenProgram(t, world.GenCfg{MaxItems: 5, Abstract: true, ForceReset: true, ReadFirst: true})
		if !tame(a) || !tame(b) {
			if st != nil {
				st.Add("vec_skipped_untame", 1)
			}
			return nil
		}
		w, h := 8+t.Intn(57), 8+t.Intn(57)
		// strips: one pixel high or wide (a rasteriser then samples a single
		// row or column of every paint)
		switch t.Pick(6, 1, 1, 1) {
		case 1:
			h = 1
		case 2:
			w = 1
		case 3:
			// a banner: one side beyond a few hundred pixels (back ends switch
			// strategy with the size of what they are asked to cover)
			w, h = 300+t.Intn(500), 2+t.Intn(12)
			if t.Bool() {
				w, h = h, w
			}
		}
		op := draw.Over
		if t.Bool() {
			op = draw.Src
		}
		return sig(vecReuse(ctx, t, a, b, biasedCut(t, a), w, h, op))

	default: // c17Twice
		prog := world.GenProgram(t, world.GenCfg{MaxItems: 8, Abstract: true, EncOnly: true, Observers: true})
		var e1, e2 encode.Encoder
		// e1 is additionally asked for Bytes twice in a row at a drawn point of
		// the program (two thirds of the time inside an open path, where
		// run-length arguments are pending): the two results must be equal, and
		// asking must not change what the remaining calls produce.
		mid := biasedCut(t, prog)
		world.Run(world.Target{Dst: &e1, Enc: &e1}, prog[:mid])
		{
			m1, merr1 := e1.Bytes()
			mk := append([]byte(nil), m1...)
			m2, merr2 := e1.Bytes()
			if (merr1 != nil) != (merr2 != nil) || !bytes.Equal(mk, m2) {
				v := viol("C17", "bytes-twice", "two consecutive Bytes calls after call %d of %d differ: %d bytes err=%v, then %d bytes err=%v", mid, len(prog), len(mk), merr1, len(m2), merr2)
				v.Trace = world.FormatOps(prog, 40)
				return sig(v)
			}
			if st != nil && openPathAt(prog, mid) {
				st.Add("probe_bytes_twice_inside_open_path", 1)
			}
		}
		world.Run(world.Target{Dst: &e1, Enc: &e1}, prog[mid:])
		world.Run(world.Target{Dst: &e2, Enc: &e2}, prog)
		// Bytes twice: equal contents, and the first result is not altered by the second call
		first, err1 := e1.Bytes()
		keep := append([]byte(nil), first...)
		second, err2 := e1.Bytes()
		if (err1 != nil) != (err2 != nil) || !bytes.Equal(keep, second) {
			v := viol("C17", "bytes-twice", "two consecutive Bytes calls differ: %d bytes err=%v, then %d bytes err=%v", len(keep), err1, len(second), err2)
			v.Trace = world.FormatOps(prog, 40)
			return sig(v)
		}
		if !bytes.Equal(first, keep) {
			v := viol("C17", "bytes-twice", "the slice returned by the first Bytes call was altered by the second call")
			v.Trace = world.FormatOps(prog, 40)
			return sig(v)
		}
		o1, o2 := encOutcomeOf(&e1), encOutcomeOf(&e2)
		if d := o1.diff(o2); d != "" {
			v := viol("C17", "twice", "the same calls on two fresh Encoders give different results (the first was also asked for Bytes after call %d and at the end): %s", mid, d)
			v.Trace = world.FormatOps(prog, 40)
			return sig(v)
		}
		// and the same stored file decoded into two fresh Renderers
		if b := keep; err1 == nil {
			rect := c17Rects[t.Intn(len(c17Rects))]
			var logs [2][]world.RastOp
			for i := range logs {
				z := &world.RecRaster{}
				var r render.Renderer
				r.SetRasterizer(z, rect)
				_ = decode.Decode(&r, b)
				logs[i] = z.Ops
			}
			if d := world.FirstRastDiffExact(logs[0], logs[1]); d >= 0 {
				v := viol("C17", "twice", "decoding the same bytes into two fresh Renderers gives different rasteriser logs (first difference at call #%d)", d)
				v.Trace = world.FormatOps(prog, 40)
				return sig(v)
			}
		}
		ctx.Fold(fnv(keep))
		if st != nil {
			st.Add("evaluations", 1)
			st.Add("twice_runs", 1)
		}
		return nil
	}
}

func c17Counts(tier string) [6]int {
	if tier == "thorough" {
		return [6]int{6000000, 6000000, 1500000, 1500000, 60000, 60000}
	}
	return [6]int{300000, 300000, 60000, 60000, 1200, 1200}
}

func init() {
	register(&Property{
		ID:    "C17",
		Level: "fault_enumeration",
		Cases: func(ctx *Ctx) int {
			n := 0
			for _, c := range c17Counts(ctx.Tier) {
				n += c
			}
			return n
		},
		Prefix: func(ctx *Ctx, i int) []uint64 {
			for m, c := range c17Counts(ctx.Tier) {
				if i < c {
					return []uint64{uint64(m)}
				}
				i -= c
			}
			return []uint64{c17Twice}
		},
		Run: c17Run,
		Describe: func(tier string, s *report.Stats, cases int) Evidence {
			return Evidence{
				Rule: "A case is (first use A, abort point, abort cause, second use B) on one real object. A is biased to dirty everything (all 64+64 registers via incrementing writes, selectors at 63, LOD bounds that disable paths, >=32-stop gradients, read-backs and Generator helpers, resolution flag); B is biased to read before it writes (fills from registers it never set, gradients over registers it never set, smooth and relative verbs first, no SetLOD). Causes: producer stops at the cut; a protocol fault at the cut; producer stops and keeps the Bytes slice; A arrives through Decode from a stored file hit by 1-2 storage faults; A completes. Cuts are drawn with a bias to in-flight state (quick) and, for sampled (A,B) pairs, enumerated over every call index x every applicable cause (both tiers, more pairs in thorough). Oracle: reused object after Reset/Decode == fresh object, on Bytes+error+CSel+NSel+LOD+flag (Encoder), on the recording rasteriser's log bit for bit incl. paint snapshots (Renderer), on pixels (real vec.Rasterizer, fresh image in both arms). distinct_nontrivial = hash-bitmap count of distinct (A[:cut], cause, B) with an abort before the end of A or a cause other than 'complete'.",
				Extra: map[string]interface{}{
					"abort_causes_encoder":               s.SortedCounters("enc_cause_"),
					"abort_causes_renderer":              s.SortedCounters("rend_cause_"),
					"raster_calls_compared":              s.Counters["raster_calls_compared"],
					"vec_pixel_runs":                     s.Counters["vec_pixel_runs"],
					"twice_runs":                         s.Counters["twice_runs"],
					"AB_pairs_with_every_cut_enumerated": map[string]int64{"encoder": s.Counters["enumerated_AB_pairs_encoder"], "renderer": s.Counters["enumerated_AB_pairs_renderer"]},
					"reach_probes": map[string]int64{
						"Encoder aborted inside an open path":                                         s.Counters["probe_encoder_aborted_inside_open_path"],
						"Renderer aborted inside an open path":                                        s.Counters["probe_renderer_aborted_inside_open_path"],
						"second use drew something":                                                   s.Counters["probe_second_use_drew_something"],
						"second use painted a gradient":                                               s.Counters["probe_second_use_painted_gradient"],
						"more than one abort/restart round":                                           s.Counters["probe_multiple_abort_restart_rounds"],
						"cases in which the Renderer value moved to another address between the uses": s.Counters["cases_where_the_renderer_value_moved_between_uses"],
						"cases with further uneventful uses between the first use and the compared one (1-3, around 256 and 512, around 65536)": s.Counters["cases_with_idle_uses_in_between"],
						"cases set aside because the code panicked in both arms (C02 reports panics)":                                           s.Counters["cases_set_aside_because_the_code_panicked"],
						"Bytes asked twice inside an open path":                                                                                 s.Counters["probe_bytes_twice_inside_open_path"],
						"vec second use left pixels":                                                                                            s.Counters["probe_vec_second_use_left_pixels"],
						"vec runs skipped (coordinates not moderate)":                                                                           s.Counters["vec_skipped_untame"],
						"vec back end panicked in the first use (skipped)":                                                                      s.Counters["vec_backend_panicked_in_first_use"],
						"vec first use produced segments beyond +-50000 px (skipped)":                                                           s.Counters["vec_first_use_left_the_tame_range"],
						"vec second use produced segments beyond +-50000 px (segment streams compared, pixels not)":                             s.Counters["vec_second_use_left_the_tame_range_(segments compared, pixels not)"],
						"vec back end panicked in both arms (skipped)":                                                                          s.Counters["vec_backend_panicked_in_both_arms"],
					},
					"simulated_time": "none; the unit is one Destination call, 'recovery' means the very next intact use yields exactly the fault-free result",
					"components": map[string]string{
						"real": "encode.Encoder, render.Renderer + Gradient, decode.Decode, generate.Generator helpers, mdicons.ParsePathData, raster/vec.Rasterizer over golang.org/x/image/vector (pixel arm)",
						"stub": "program generators, storage fault injector, recording Rasterizer, protocol fault injector",
					},
				},
				Assumptions: []string{
					"results are copied before the object is touched again: a slice returned by an earlier Bytes aliases the recycled buffer by design, which is not part of the property",
					"the vec arm only sees well-formed programs with |coordinate| <= 1200 (x/image/vector itself misbehaves on ~1e38 coordinates)",
				},
			}
		},
	})
}
