// Package props holds one simulated workload + oracle per claimed property.
package props

import (
	"fmt"
	"runtime/debug"
	"strings"
	"sync/atomic"

	"verif/sim/report"
	"verif/sim/tape"
	"verif/sim/world"
)

// Ctx is what a run sees of its surroundings.
type Ctx struct {
	Tier   string
	Stats  *report.Stats // nil while shrinking or replaying: those runs must not count as coverage
	Corpus []world.File
	// beacon is bumped whenever the code under test makes observable
	// progress; the watchdog in main reads it.
	beacon *uint64
	// literal holds the literal form of the case being executed, for the
	// watchdog to report if the run never returns.
	literal atomic.Value
	// digest folds what the run observed; it feeds the determinism self-test.
	digest uint64
}

// Fold mixes an observation into the run digest.
func (c *Ctx) Fold(h uint64) { c.digest = fnvAdd(c.digest, h) }

// TakeDigest returns and clears the digest.
func (c *Ctx) TakeDigest() uint64 { d := c.digest; c.digest = 0; return d }

// NewCtx returns a context. corpus may be nil for properties that do not
// read stored files.
func NewCtx(tier string, stats *report.Stats, corpus []world.File, beacon *uint64) *Ctx {
	return &Ctx{Tier: tier, Stats: stats, Corpus: corpus, beacon: beacon}
}

// Quiet returns a copy of ctx that keeps no statistics.
func (c *Ctx) Quiet() *Ctx {
	return &Ctx{Tier: c.Tier, Corpus: c.Corpus, beacon: c.beacon}
}

// Beat reports progress to the watchdog.
func (c *Ctx) Beat() {
	if c.beacon != nil {
		atomic.AddUint64(c.beacon, 1)
	}
}

// SetLiteral publishes the literal tape of the case in flight.
func (c *Ctx) SetLiteral(t []uint64) { c.literal.Store(t) }

// Literal returns the literal tape of the case in flight (nil if none).
func (c *Ctx) Literal() []uint64 {
	v, _ := c.literal.Load().([]uint64)
	return v
}

// Property is one claimed property's simulated check.
type Property struct {
	ID    string
	Level string
	// Cases is the number of cases of a tier (a function of the tree's
	// corpus, never of time).
	Cases func(ctx *Ctx) int
	// Prefix forces the first decisions of case i (enumerated dimensions).
	Prefix func(ctx *Ctx, i int) []uint64
	// Run executes one case. It must be a pure function of the tape and the
	// tree.
	Run func(ctx *Ctx, t *tape.Tape) *report.Violation
	// HangIsViolation: the property itself states termination, so a run that
	// never returns is a violation of it rather than infrastructure trouble.
	HangIsViolation bool
	// Describe fills the property-specific part of the evidence.
	Describe func(tier string, s *report.Stats, cases int) Evidence
	// NeedsCorpus: load the stored-file corpus from the tree.
	NeedsCorpus bool
	// NeedsSched: only runs in the instrumented build.
	NeedsSched bool
	// RaceFrom, when set, is the case index from which on cases must be run
	// by the binary built with -race (C18's race arm).
	RaceFrom func(ctx *Ctx) int
	// FreshProcessReplay: violations are confirmed and shrunk in fresh child
	// processes (they may consist of a one-time write to process-wide state).
	FreshProcessReplay bool
}

// Evidence is the property-specific part of an evidence file.
type Evidence struct {
	Rule        string
	Extra       map[string]interface{}
	Assumptions []string
	Exhaustive  bool
}

// All is the registry, filled by the property files' init functions.
var All = map[string]*Property{}

func register(p *Property) {
	if p.ID != "C02" && !p.NeedsSched {
		p.Run = setPanicsAside(p.Run)
	}
	All[p.ID] = p
}

// setPanicsAside is the safety net behind the per-arm guards of C07, C10 and
// C17: a panic raised by the code under test (or by x/image/vector below it)
// anywhere else in a case is C02's business, not theirs, so the case is set
// aside and counted. A panic raised by the harness itself is a defect of the
// harness and is passed on (the worker dies, the run ends in trouble, exit 2).
func setPanicsAside(run func(*Ctx, *tape.Tape) *report.Violation) func(*Ctx, *tape.Tape) *report.Violation {
	return func(ctx *Ctx, t *tape.Tape) (v *report.Violation) {
		defer func() {
			if r := recover(); r != nil {
				if !panicRaisedByCodeUnderTest(string(debug.Stack())) {
					panic(r)
				}
				if ctx.Stats != nil {
					ctx.Stats.Add("cases_set_aside_because_the_code_panicked", 1)
				}
				v = nil
			}
		}()
		return run(ctx, t)
	}
}

// panicRaisedByCodeUnderTest looks at the stack of a recovered panic: the
// first frame below panic() that is not the Go runtime's decides.
func panicRaisedByCodeUnderTest(stack string) bool {
	lines := strings.Split(stack, "\n")
	i := 0
	for ; i < len(lines); i++ {
		if strings.HasPrefix(lines[i], "panic(") {
			break
		}
	}
	for i++; i < len(lines); i++ {
		l := lines[i]
		if l == "" || l[0] == '\t' || strings.HasPrefix(l, "runtime.") || strings.HasPrefix(l, "panic(") {
			continue
		}
		return strings.HasPrefix(l, "github.com/reactivego/ivg") || strings.HasPrefix(l, "golang.org/x/image/")
	}
	return false
}

func viol(prop, inv, format string, args ...interface{}) *report.Violation {
	return &report.Violation{Property: prop, Invariant: prop + "." + inv, Message: fmt.Sprintf(format, args...)}
}

// fnv hashes bytes (distinctness counting).
func fnv(b []byte) uint64 {
	h := uint64(14695981039346656037)
	for _, x := range b {
		h ^= uint64(x)
		h *= 1099511628211
	}
	return h
}

func fnvAdd(h uint64, v uint64) uint64 {
	for i := 0; i < 8; i++ {
		h ^= v & 0xff
		h *= 1099511628211
		v >>= 8
	}
	return h
}

// hashOps hashes a program or call log.
func hashOps(ops []world.Op) uint64 {
	h := uint64(14695981039346656037)
	for i := range ops {
		o := &ops[i]
		h = fnvAdd(h, uint64(o.K)|uint64(o.U)<<8)
		if o.Incr {
			h = fnvAdd(h, 1)
		}
		for _, f := range o.F {
			h = fnvAdd(h, uint64(float32bits(f)))
		}
		if o.K == world.KSetCReg {
			h = fnvAdd(h, fnv([]byte(o.C.String())))
		}
		h = fnvAdd(h, fnv([]byte(o.S)))
		if o.LA {
			h = fnvAdd(h, 2)
		}
		if o.SW {
			h = fnvAdd(h, 3)
		}
		h = fnvAdd(h, uint64(len(o.Stops)))
	}
	return h
}

func min(a, b int) int {
	if a < b {
		return a
	}
	return b
}

// RaceEnabled reports whether this binary was built with -race.
func RaceEnabled() bool { return raceEnabled }
