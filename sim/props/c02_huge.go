package props

import (
	"fmt"
	"image/color"

	"github.com/reactivego/ivg"
	"github.com/reactivego/ivg/decode"

	"verif/sim/report"
)

// countDest counts calls without recording them (inputs of tens of megabytes
// deliver tens of millions of calls).
type countDest struct {
	n          int
	firstReset bool
}

func (d *countDest) hit() { d.n++ }
func (d *countDest) Reset(ivg.ViewBox, [64]color.RGBA) {
	if d.n == 0 {
		d.firstReset = true
	}
	d.n++
}
func (d *countDest) CSel() uint8                                        { return 0 }
func (d *countDest) SetCSel(uint8)                                      { d.hit() }
func (d *countDest) NSel() uint8                                        { return 0 }
func (d *countDest) SetNSel(uint8)                                      { d.hit() }
func (d *countDest) SetCReg(uint8, bool, ivg.Color)                     { d.hit() }
func (d *countDest) SetNReg(uint8, bool, float32)                       { d.hit() }
func (d *countDest) SetLOD(float32, float32)                            { d.hit() }
func (d *countDest) StartPath(uint8, float32, float32)                  { d.hit() }
func (d *countDest) ClosePathEndPath()                                  { d.hit() }
func (d *countDest) ClosePathAbsMoveTo(float32, float32)                { d.hit() }
func (d *countDest) ClosePathRelMoveTo(float32, float32)                { d.hit() }
func (d *countDest) AbsHLineTo(float32)                                 { d.hit() }
func (d *countDest) RelHLineTo(float32)                                 { d.hit() }
func (d *countDest) AbsVLineTo(float32)                                 { d.hit() }
func (d *countDest) RelVLineTo(float32)                                 { d.hit() }
func (d *countDest) AbsLineTo(float32, float32)                         { d.hit() }
func (d *countDest) RelLineTo(float32, float32)                         { d.hit() }
func (d *countDest) AbsSmoothQuadTo(float32, float32)                   { d.hit() }
func (d *countDest) RelSmoothQuadTo(float32, float32)                   { d.hit() }
func (d *countDest) AbsQuadTo(float32, float32, float32, float32)       { d.hit() }
func (d *countDest) RelQuadTo(float32, float32, float32, float32)       { d.hit() }
func (d *countDest) AbsSmoothCubeTo(float32, float32, float32, float32) { d.hit() }
func (d *countDest) RelSmoothCubeTo(float32, float32, float32, float32) { d.hit() }
func (d *countDest) AbsCubeTo(_, _, _, _, _, _ float32)                 { d.hit() }
func (d *countDest) RelCubeTo(_, _, _, _, _, _ float32)                 { d.hit() }
func (d *countDest) AbsArcTo(_, _, _ float32, _, _ bool, _, _ float32)  { d.hit() }
func (d *countDest) RelArcTo(_, _, _ float32, _, _ bool, _, _ float32)  { d.hit() }

var _ ivg.Destination = (*countDest)(nil)

// c02HugeSizes: input lengths just beyond the powers of two at which code
// tends to change its mind (a 16-bit length, a megabyte, 2^24, 2^25).
var c02HugeSizes = []int{1<<16 + 1, 1<<20 + 3, 1<<24 + 5, 1<<25 + 7}

// c02HugeCase: the statement holds for all byte strings, also very long
// ones. A well-formed stream of selector writes (one call per byte) of a
// length just beyond a power of two is decoded whole and cut at one
// sixteenth: error type, first call, calls <= bytes, and the prefix may not
// deliver more than the whole (nor anything the whole does not: the stream
// is homogeneous, so counts decide).
func c02HugeCase(ctx *Ctx, k int) *report.Violation {
	size := c02HugeSizes[k]
	s := longStream(2, size)
	fin := func(v *report.Violation) *report.Violation {
		v.Trace = []string{fmt.Sprintf("well-formed stream of %d bytes: magic, no metadata, then 05 45 3f 7f repeated", len(s))}
		v.Tape = []uint64{c02Linear, uint64(c02LinearShapes + k)}
		v.KeepPrefix = 2
		v.Signature = v.Invariant
		return v
	}
	run := func(b []byte) (d *countDest, err error, pan bool, msg string) {
		d = &countDest{}
		pan, _, msg = guard(func() { err = decode.Decode(d, b) })
		ctx.Beat()
		return
	}
	whole, werr, wp, wm := run(s)
	part, perr, pp, pm := run(s[:len(s)/16])
	if wp || pp {
		return fin(viol("C02", "panic", "Decode panicked on a well-formed stream of %d bytes: %s%s", len(s), wm, pm))
	}
	for _, e := range []error{werr, perr} {
		if !isDecodeError(e) {
			return fin(viol("C02", "error-type", "Decode of a %d-byte stream returned %T (%v), neither nil nor decode.DecodeError", len(s), e, e))
		}
	}
	if whole.n > 0 && !whole.firstReset || part.n > 0 && !part.firstReset {
		return fin(viol("C02", "first-not-reset", "the first call delivered for a %d-byte stream is not Reset", len(s)))
	}
	if whole.n > len(s) {
		return fin(viol("C02", "call-without-byte", "%d calls delivered for %d bytes", whole.n, len(s)))
	}
	if part.n > whole.n {
		return fin(viol("C02", "prefix", "the prefix of length %d of a well-formed %d-byte stream delivers %d calls (err=%v), the whole stream only %d (err=%v): the calls for a prefix are not a prefix of the calls for the whole", len(s)/16, len(s), part.n, perr, whole.n, werr))
	}
	var vbErr error
	if p, _, m := guard(func() { _, vbErr = decode.DecodeViewBox(s) }); p {
		return fin(viol("C02", "panic", "DecodeViewBox panicked on a %d-byte stream: %s", len(s), m))
	}
	if !isDecodeError(vbErr) {
		return fin(viol("C02", "error-type", "DecodeViewBox of a %d-byte stream returned %T (%v), neither nil nor decode.DecodeError", len(s), vbErr, vbErr))
	}
	if ctx.Stats != nil {
		ctx.Stats.Add("evaluations", 1)
		ctx.Stats.Add("huge_streams", 1)
		ctx.Stats.Max("max_bytes_in_one_stream", int64(len(s)))
		ctx.Stats.Distinct(fnvAdd(uint64(size), 23))
	}
	return nil
}
