package props

import (
	"fmt"
	"image"
	"sync"

	"verif/sim/world"
)

// A pool of rasterisers that long-lived Renderers borrow for one decode and
// hand back (the accumulation buffers are the expensive part of a real
// rasteriser, so an application keeps a few and lends them out). Ownership
// moves only at take and giveBack, both harness code that runs under the
// baton: at every instant a pooled rasteriser belongs to at most one
// pipeline, so pipelines still operate on distinct destination objects.
//
// What a pipeline gets is a lease, a handle that forwards every call to the
// pooled rasteriser. A call that arrives through a lease that was handed
// back is a write, by this pipeline, to an object that now belongs to the
// pool or to another pipeline: it is recorded as a stray (and still
// forwarded, so that the new owner's result really is disturbed).
//
// take and giveBack synchronise on a mutex (as any real pool does): in the
// race arm, where the detector cannot see the baton's hand-overs, that is the
// happens-before edge from the previous holder's last use to the next
// holder's first, so a legitimate hand-over is not a race and a stray call
// after giveBack is one.
type c18RasterPool struct {
	mu     sync.Mutex
	z      []*world.RecRaster
	busy   []bool
	next   int
	strays []string
}

func newC18RasterPool(n int) *c18RasterPool {
	p := &c18RasterPool{busy: make([]bool, n)}
	for i := 0; i < n; i++ {
		p.z = append(p.z, &world.RecRaster{})
	}
	return p
}

type c18Lease struct {
	pool *c18RasterPool
	rec  *world.RecRaster
	idx  int
	from int // length of the pooled recorder's log when the lease was taken
	live bool
	who  string
}

// take lends out the next free rasteriser in rotation (a new one if all are
// lent out).
func (p *c18RasterPool) take(who string) *c18Lease {
	p.mu.Lock()
	defer p.mu.Unlock()
	n := len(p.z)
	for d := 0; d < n; d++ {
		i := (p.next + d) % n
		if !p.busy[i] {
			p.busy[i] = true
			p.next = (i + 1) % n
			return &c18Lease{pool: p, rec: p.z[i], idx: i, from: len(p.z[i].Ops), live: true, who: who}
		}
	}
	p.z = append(p.z, &world.RecRaster{})
	p.busy = append(p.busy, true)
	return &c18Lease{pool: p, rec: p.z[n], idx: n, live: true, who: who}
}

// giveBack ends the lease and returns what the rasteriser received during it.
func (l *c18Lease) giveBack() []world.RastOp {
	if !l.live {
		return nil
	}
	l.live = false
	l.pool.mu.Lock()
	defer l.pool.mu.Unlock()
	ops := append([]world.RastOp(nil), l.rec.Ops[l.from:]...)
	l.pool.busy[l.idx] = false
	return ops
}

func (l *c18Lease) z(call string) *world.RecRaster {
	if !l.live {
		l.pool.mu.Lock()
		l.pool.strays = append(l.pool.strays, fmt.Sprintf("%s called %s on pooled rasteriser #%d after handing it back", l.who, call, l.idx))
		l.pool.mu.Unlock()
	}
	return l.rec
}

func (l *c18Lease) Reset(w, h int)          { l.z("Reset").Reset(w, h) }
func (l *c18Lease) Size() image.Point       { return l.z("Size").Size() }
func (l *c18Lease) Bounds() image.Rectangle { return l.z("Bounds").Bounds() }
func (l *c18Lease) Pen() (x, y float32)     { return l.z("Pen").Pen() }
func (l *c18Lease) MoveTo(ax, ay float32)   { l.z("MoveTo").MoveTo(ax, ay) }
func (l *c18Lease) LineTo(bx, by float32)   { l.z("LineTo").LineTo(bx, by) }
func (l *c18Lease) QuadTo(bx, by, cx, cy float32) {
	l.z("QuadTo").QuadTo(bx, by, cx, cy)
}
func (l *c18Lease) CubeTo(bx, by, cx, cy, dx, dy float32) {
	l.z("CubeTo").CubeTo(bx, by, cx, cy, dx, dy)
}
func (l *c18Lease) ClosePath() { l.z("ClosePath").ClosePath() }
func (l *c18Lease) Draw(r image.Rectangle, src image.Image, sp image.Point) {
	l.z("Draw").Draw(r, src, sp)
}

// quiesce ends every lease bookkeeping between runs (a task that panicked
// may not have handed its rasteriser back) and returns the strays so far.
func (p *c18RasterPool) quiesce() []string {
	p.mu.Lock()
	defer p.mu.Unlock()
	for i := range p.busy {
		p.busy[i] = false
		p.z[i].Ops = p.z[i].Ops[:0]
	}
	p.next = 0
	s := p.strays
	p.strays = nil
	return s
}
