package props

import (
	"bytes"
	"encoding/hex"
	"fmt"
	"image"
	"image/color"
	"math"
	"runtime"
	"runtime/debug"
	"syscall"
	"time"
	"unsafe"

	"github.com/reactivego/ivg"
	"github.com/reactivego/ivg/decode"
	"github.com/reactivego/ivg/encode"
	"github.com/reactivego/ivg/render"

	"verif/sim/model"
	"verif/sim/report"
	"verif/sim/tape"
	"verif/sim/world"
)

func float32bits(f float32) uint32 { return math.Float32bits(f) }

// C02 — decoding arbitrary bytes is safe, bounded and never delivers garbage
// early. The simulated environment is the storage the encoded bytes come
// from (seam S1): it tears, rots, loses, duplicates and misdirects blocks.
// Every invariant below is a function of one stored byte string.

const (
	c02Trunc   = iota // every truncation point of corpus file i, all readers at each
	c02Sweep          // every byte offset of corpus file i replaced by value class j
	c02Multi          // seeded: source file (corpus / Encoder-written / foreign-written) + 1..4 faults
	c02Intact         // seeded: files from the Encoder and the foreign writer read without faults
	c02Short          // exhaustive: a valid header followed by every instruction stream of up to 2 (quick) / 3 (thorough) bytes
	c02Random         // seeded: a valid or nearly valid header followed by random bytes
	c02Linear         // long repetitive valid streams at two sizes: allocation volume and delivered activity must grow linearly
	c02Literal = 255  // the rest of the tape is the stored bytes themselves (replay / shrinking form)
)

// sentinel panics raised by the harness's own seam objects to stop a
// runaway reader; they are distinguished from panics of the code under test.
type workBound struct{ what string }

var c02Rects = []image.Rectangle{
	image.Rect(0, 0, 32, 32),
	{},
	image.Rect(0, 0, 1, 1),
	image.Rect(0, 0, 64, 24),
	image.Rect(10, 20, 58, 44),
	image.Rect(0, 0, 200, 200),
	image.Rect(-8, -8, 8, 8),
}

type c02Cfg struct {
	rect        int
	withPalette bool
}

func errText(err error) string {
	if err == nil {
		return "nil"
	}
	return err.Error()
}

// guard runs f, converting a panic of the code under test into a message.
func guard(f func()) (panicked bool, bound *workBound, msg string) {
	defer func() {
		if r := recover(); r != nil {
			if wb, ok := r.(workBound); ok {
				bound = &wb
				return
			}
			panicked = true
			msg = fmt.Sprint(r)
		}
	}()
	f()
	return
}

func isDecodeError(err error) bool {
	if err == nil {
		return true
	}
	_, ok := err.(decode.DecodeError)
	return ok
}

// decodeRec decodes s into a plain recorder.
func decodeRec(ctx *Ctx, s []byte) (calls []world.Op, err error, v *report.Violation) {
	rd := &world.RecDest{}
	limit := len(s) + 1
	rd.OnCall = func() {
		ctx.Beat()
		if len(rd.Calls) >= limit {
			panic(workBound{"more calls delivered than input bytes"})
		}
	}
	ctx.Beat()
	p, wb, msg := guard(func() { err = decode.Decode(rd, s) })
	if p {
		return rd.Calls, nil, viol("C02", "panic", "Decode into a recorder panicked: %s", msg)
	}
	if wb != nil {
		return rd.Calls, nil, viol("C02", "call-without-byte", "Decode delivered %d calls for %d input bytes (%s)", len(rd.Calls)+1, len(s), wb.what)
	}
	if !isDecodeError(err) {
		return rd.Calls, err, viol("C02", "error-type", "Decode returned %T (%v), neither nil nor decode.DecodeError", err, err)
	}
	return rd.Calls, err, nil
}

// checkBytes evaluates every C02 invariant on one stored byte string. cuts
// lists the prefixes to compare (nil = every prefix).
func checkBytes(ctx *Ctx, s []byte, cfg c02Cfg, cuts []int, allCuts bool) *report.Violation {
	pristine := append([]byte(nil), s...)
	modified := func(who string) *report.Violation {
		if !bytes.Equal(s, pristine) {
			return viol("C02", "input-modified", "%s modified its input", who)
		}
		return nil
	}

	// reader 1: plain recorder
	calls, err, v := decodeRec(ctx, s)
	if v != nil {
		return v
	}
	if v := modified("Decode into a recorder"); v != nil {
		return v
	}
	valid, _ := model.MetadataValid(s)

	// reader 4: DecodeViewBox
	var vbErr error
	var vb ivg.ViewBox
	ctx.Beat()
	if p, _, msg := guard(func() { vb, vbErr = decode.DecodeViewBox(s) }); p {
		return viol("C02", "panic", "DecodeViewBox panicked: %s", msg)
	}
	if !isDecodeError(vbErr) {
		return viol("C02", "error-type", "DecodeViewBox returned %T (%v)", vbErr, vbErr)
	}
	if v := modified("DecodeViewBox"); v != nil {
		return v
	}
	_ = vb

	if len(calls) > 0 {
		if !valid {
			return viol("C02", "early-delivery", "%d calls were delivered (first: %s) although magic/metadata are not valid by the format text", len(calls), calls[0].String())
		}
		if vbErr != nil {
			return viol("C02", "early-delivery", "%d calls were delivered although DecodeViewBox rejects the metadata (%v)", len(calls), vbErr)
		}
		if calls[0].K != world.KReset {
			return viol("C02", "first-not-reset", "first delivered call is %s", calls[0].String())
		}
	}
	if len(calls) > len(s) {
		return viol("C02", "call-without-byte", "%d calls delivered for %d input bytes", len(calls), len(s))
	}

	// reader 2: Renderer behind a counting proxy, recording rasteriser
	{
		rz := &world.RecRaster{NoSnap: true}
		var rn render.Renderer
		rn.SetRasterizer(rz, c02Rects[cfg.rect%len(c02Rects)])
		px := &countingDest{Destination: &rn, ctx: ctx, limit: len(s) + 1}
		rz.OnOp = px.onRast
		var rerr error
		ctx.Beat()
		var opts []decode.DecodeOption
		if cfg.withPalette {
			pal := ivg.DefaultPalette
			pal[0] = color.RGBA{0x80, 0, 0, 0x80}
			pal[1] = color.RGBA{0, 0, 0, 0}
			pal[2] = color.RGBA{0x20, 0x40, 0x81, 0x00} // a gradient-looking entry
			opts = append(opts, decode.WithPalette(pal))
		}
		p, wb, msg := guard(func() { rerr = decode.Decode(px, s, opts...) })
		if p {
			return viol("C02", "panic", "Decode into a Renderer panicked after %d calls (last: %s): %s", px.n, px.last, msg)
		}
		if wb != nil {
			return viol("C02", "raster-bound", "%s (call #%d %s)", wb.what, px.n, px.last)
		}
		if !isDecodeError(rerr) {
			return viol("C02", "error-type", "Decode into a Renderer returned %T (%v)", rerr, rerr)
		}
		if v := modified("Decode into a Renderer"); v != nil {
			return v
		}
		if px.n > 0 && (!valid || vbErr != nil) {
			return viol("C02", "early-delivery", "Renderer received %d calls although the metadata is invalid", px.n)
		}
		if ctx.Stats != nil {
			ctx.Stats.Add("raster_ops", int64(len(rz.Ops)))
			ctx.Stats.Max("max_segments_per_call", int64(px.worst))
		}
	}

	// reader 3: Encoder (transcode)
	{
		var e encode.Encoder
		var eerr error
		ctx.Beat()
		p, _, msg := guard(func() {
			eerr = decode.Decode(&e, s)
			_, _ = e.Bytes()
		})
		if p {
			return viol("C02", "panic", "Decode into an Encoder panicked: %s", msg)
		}
		if !isDecodeError(eerr) {
			return viol("C02", "error-type", "Decode into an Encoder returned %T (%v)", eerr, eerr)
		}
		if v := modified("Decode into an Encoder"); v != nil {
			return v
		}
	}

	// reader 6 (every fourth file): a DestinationLogger in front of a
	// recorder — formatting of hostile values must not panic
	if fnv(s)%4 == 0 {
		rd := &world.RecDest{}
		lim := len(s) + 1
		rd.OnCall = func() {
			ctx.Beat()
			if len(rd.Calls) >= lim {
				panic(workBound{"more calls delivered than input bytes"})
			}
		}
		var lerr error
		ctx.Beat()
		p, _, msg := guard(func() { lerr = decode.Decode(&ivg.DestinationLogger{Destination: rd, Alt: len(s)%2 == 0}, s) })
		if p {
			return viol("C02", "panic", "Decode into a DestinationLogger panicked after %d forwarded calls: %s", len(rd.Calls), msg)
		}
		if !isDecodeError(lerr) {
			return viol("C02", "error-type", "Decode into a DestinationLogger returned %T (%v)", lerr, lerr)
		}
		if v := modified("Decode into a DestinationLogger"); v != nil {
			return v
		}
		// what the logger forwards is C07's business, not C02's: not compared here
	}

	// reader 5: Disassemble
	{
		var derr error
		var out []byte
		ctx.Beat()
		if p, _, msg := guard(func() { out, derr = decode.Disassemble(s) }); p {
			return viol("C02", "panic", "Disassemble panicked: %s", msg)
		}
		if !isDecodeError(derr) {
			return viol("C02", "error-type", "Disassemble returned %T (%v)", derr, derr)
		}
		if v := modified("Disassemble"); v != nil {
			return v
		}
		// bounded work: a listing line is produced per consumed item, so its
		// size is linear in the input (very generous constant)
		if len(out) > 4096+len(s)*512 {
			return viol("C02", "call-without-byte", "Disassemble produced %d bytes of listing for %d input bytes", len(out), len(s))
		}
	}

	// prefixes
	cut := func(k int) *report.Violation {
		if k < 0 || k > len(s) {
			return nil
		}
		var lk []world.Op
		if k == len(s) {
			lk = calls
		} else {
			var v *report.Violation
			lk, _, v = decodeRec(ctx, s[:k])
			if v != nil {
				v.Message = fmt.Sprintf("on the prefix of length %d: %s", k, v.Message)
				return v
			}
		}
		if ok, at := world.IsCallPrefix(lk, calls); !ok {
			got := "<none>"
			if at < len(lk) {
				got = lk[at].String()
			}
			want := "<none>"
			if at < len(calls) {
				want = calls[at].String()
			}
			return viol("C02", "prefix", "calls delivered for the prefix of length %d are not a prefix of the calls for all %d bytes: call #%d is %s vs %s (%d vs %d calls)", k, len(s), at, got, want, len(lk), len(calls))
		}
		// (Every prefix is itself held to "no more calls than bytes" by the
		// recorder. A stricter, local form — one more byte, at most one more
		// call — was removed: the property does not say WHEN a call that has
		// consumed its bytes is delivered, and a decoder that checks a whole
		// repeat group before delivering any of it delivers several calls on
		// the byte that completes the group; mutants/neutral-agent-n11.)
		if ctx.Stats != nil {
			ctx.Stats.Add("prefix_checks", 1)
		}
		return nil
	}
	if allCuts {
		for k := 0; k <= len(s); k++ {
			if v := cut(k); v != nil {
				return v
			}
		}
	} else {
		for _, k := range cuts {
			if v := cut(k); v != nil {
				return v
			}
		}
	}
	ctx.Fold(fnvAdd(fnv([]byte(errText(err))), uint64(len(calls))<<20|uint64(len(s))))
	if ctx.Stats != nil {
		ctx.Stats.Add("files_read", 1)
		ctx.Stats.Add("calls_delivered", int64(len(calls)))
		switch {
		case !valid:
			ctx.Stats.Add("outcome_rejected_in_metadata", 1)
		case err != nil:
			ctx.Stats.Add("outcome_error_after_metadata", 1)
			if len(calls) > 1 {
				ctx.Stats.Add("probe_error_after_delivered_call", 1)
			}
		default:
			ctx.Stats.Add("outcome_accepted", 1)
		}
	}
	_ = err
	return nil
}

// countingDest forwards to the Renderer and bounds the rasteriser activity
// per Destination call.
type countingDest struct {
	ivg.Destination
	ctx   *Ctx
	n     int
	limit int
	last  string
	segs  int
	ops   int
	worst int
}

func (c *countingDest) begin(name string) {
	c.ctx.Beat()
	c.n++
	if c.n > c.limit {
		panic(workBound{"more calls delivered than input bytes"})
	}
	c.last = name
	c.segs, c.ops = 0, 0
}

func (c *countingDest) onRast(k world.RKind) {
	c.ops++
	if k == world.RLineTo || k == world.RQuadTo || k == world.RCubeTo {
		c.segs++
		if c.segs > c.worst {
			c.worst = c.segs
		}
	}
	if c.segs > 4 {
		panic(workBound{fmt.Sprintf("one Destination call produced more than four curve segments (%d so far)", c.segs)})
	}
	if c.ops > 8 {
		panic(workBound{fmt.Sprintf("one Destination call produced %d rasteriser calls", c.ops)})
	}
}

func (c *countingDest) Reset(vb ivg.ViewBox, p [64]color.RGBA) {
	c.begin("Reset")
	c.Destination.Reset(vb, p)
}
func (c *countingDest) SetCSel(x uint8) { c.begin("SetCSel"); c.Destination.SetCSel(x) }
func (c *countingDest) SetNSel(x uint8) { c.begin("SetNSel"); c.Destination.SetNSel(x) }
func (c *countingDest) SetCReg(adj uint8, incr bool, col ivg.Color) {
	c.begin("SetCReg")
	c.Destination.SetCReg(adj, incr, col)
}
func (c *countingDest) SetNReg(adj uint8, incr bool, f float32) {
	c.begin("SetNReg")
	c.Destination.SetNReg(adj, incr, f)
}
func (c *countingDest) SetLOD(a, b float32) { c.begin("SetLOD"); c.Destination.SetLOD(a, b) }
func (c *countingDest) StartPath(adj uint8, x, y float32) {
	c.begin("StartPath")
	c.Destination.StartPath(adj, x, y)
}
func (c *countingDest) ClosePathEndPath() {
	c.begin("ClosePathEndPath")
	c.Destination.ClosePathEndPath()
}
func (c *countingDest) ClosePathAbsMoveTo(x, y float32) {
	c.begin("ClosePathAbsMoveTo")
	c.Destination.ClosePathAbsMoveTo(x, y)
}
func (c *countingDest) ClosePathRelMoveTo(x, y float32) {
	c.begin("ClosePathRelMoveTo")
	c.Destination.ClosePathRelMoveTo(x, y)
}
func (c *countingDest) AbsHLineTo(x float32) { c.begin("AbsHLineTo"); c.Destination.AbsHLineTo(x) }
func (c *countingDest) RelHLineTo(x float32) { c.begin("RelHLineTo"); c.Destination.RelHLineTo(x) }
func (c *countingDest) AbsVLineTo(y float32) { c.begin("AbsVLineTo"); c.Destination.AbsVLineTo(y) }
func (c *countingDest) RelVLineTo(y float32) { c.begin("RelVLineTo"); c.Destination.RelVLineTo(y) }
func (c *countingDest) AbsLineTo(x, y float32) {
	c.begin("AbsLineTo")
	c.Destination.AbsLineTo(x, y)
}
func (c *countingDest) RelLineTo(x, y float32) {
	c.begin("RelLineTo")
	c.Destination.RelLineTo(x, y)
}
func (c *countingDest) AbsSmoothQuadTo(x, y float32) {
	c.begin("AbsSmoothQuadTo")
	c.Destination.AbsSmoothQuadTo(x, y)
}
func (c *countingDest) RelSmoothQuadTo(x, y float32) {
	c.begin("RelSmoothQuadTo")
	c.Destination.RelSmoothQuadTo(x, y)
}
func (c *countingDest) AbsQuadTo(x1, y1, x, y float32) {
	c.begin("AbsQuadTo")
	c.Destination.AbsQuadTo(x1, y1, x, y)
}
func (c *countingDest) RelQuadTo(x1, y1, x, y float32) {
	c.begin("RelQuadTo")
	c.Destination.RelQuadTo(x1, y1, x, y)
}
func (c *countingDest) AbsSmoothCubeTo(x2, y2, x, y float32) {
	c.begin("AbsSmoothCubeTo")
	c.Destination.AbsSmoothCubeTo(x2, y2, x, y)
}
func (c *countingDest) RelSmoothCubeTo(x2, y2, x, y float32) {
	c.begin("RelSmoothCubeTo")
	c.Destination.RelSmoothCubeTo(x2, y2, x, y)
}
func (c *countingDest) AbsCubeTo(x1, y1, x2, y2, x, y float32) {
	c.begin("AbsCubeTo")
	c.Destination.AbsCubeTo(x1, y1, x2, y2, x, y)
}
func (c *countingDest) RelCubeTo(x1, y1, x2, y2, x, y float32) {
	c.begin("RelCubeTo")
	c.Destination.RelCubeTo(x1, y1, x2, y2, x, y)
}
func (c *countingDest) AbsArcTo(rx, ry, rot float32, la, sw bool, x, y float32) {
	c.begin("AbsArcTo")
	c.Destination.AbsArcTo(rx, ry, rot, la, sw, x, y)
}
func (c *countingDest) RelArcTo(rx, ry, rot float32, la, sw bool, x, y float32) {
	c.begin("RelArcTo")
	c.Destination.RelArcTo(rx, ry, rot, la, sw, x, y)
}

// ---------------------------------------------------------------------------

func literalTape(cfg c02Cfg, s []byte) []uint64 {
	t := make([]uint64, 0, len(s)+3)
	wp := uint64(0)
	if cfg.withPalette {
		wp = 1
	}
	t = append(t, c02Literal, uint64(cfg.rect), wp)
	for _, b := range s {
		t = append(t, uint64(b))
	}
	return t
}

// c02Check runs checkBytes and, on a violation, rewrites it into the
// self-contained literal form: the tape that replays it is the faulted bytes
// themselves, so shrinking deletes and simplifies stored bytes.
func c02Check(ctx *Ctx, stored []byte, cfg c02Cfg, cuts []int, all bool, origin []string) *report.Violation {
	lit := literalTape(cfg, stored)
	ctx.SetLiteral(lit)
	// the readers get a private copy: a reader that writes to its input must
	// not damage the store (and with it every later case of this worker)
	s := append(make([]byte, 0, len(stored)), stored...)
	v := checkBytes(ctx, s, cfg, cuts, all)
	if v == nil {
		return nil
	}
	s = stored
	v.Tape, v.KeepPrefix = lit, 3
	v.InputHex = hex.EncodeToString(s)
	v.Trace = append(append([]string{}, origin...), fmt.Sprintf("stored bytes (%d): %s", len(s), hexShort(s, 96)))
	v.Signature = v.Invariant
	return v
}

func hexShort(s []byte, max int) string {
	if len(s) <= max {
		return hex.EncodeToString(s)
	}
	return hex.EncodeToString(s[:max/2]) + "…" + hex.EncodeToString(s[len(s)-max/2:])
}

var sweepVals = 8

func sweepValue(b byte, j int) byte {
	switch j {
	case 0:
		return 0x00
	case 1:
		return 0xff
	case 2:
		return ^b
	case 3:
		return b + 1
	case 4:
		return b - 1
	case 5:
		return b ^ 0x01
	case 6:
		return b ^ 0x02
	default:
		return b ^ 0x80
	}
}

const c02LinearShapes = 9

// c02LinearCases: the nine shapes plus the very long streams of c02_huge.go.
var c02LinearCases = c02LinearShapes + len(c02HugeSizes)

func c02Counts(ctx *Ctx) (nTrunc, nSweep, nMulti, nIntact, nShort, nRandom int) {
	n := len(ctx.Corpus)
	if ctx.Tier == "thorough" {
		// every offset x all 255 other values, split into 15 slices of 17 values per file;
		// short streams: one case per (header, first byte, second byte)
		return n, n * 15, 6000000, 200000, len(c02Headers) * 256 * 256, 1000000
	}
	return n, n, 24000, 4000, len(c02Headers) * 256, 20000
}

func c02Cases(ctx *Ctx) int {
	a, b, c, d, e, f := c02Counts(ctx)
	return a + b + c + d + e + f + c02LinearCases
}

func c02Prefix(ctx *Ctx, i int) []uint64 {
	a, b, c, d, e, _ := c02Counts(ctx)
	n := len(ctx.Corpus)
	switch {
	case i < a:
		return []uint64{c02Trunc, uint64(i)}
	case i < a+b:
		j := i - a
		return []uint64{c02Sweep, uint64(j % n), uint64(j / n)}
	case i < a+b+c:
		return []uint64{c02Multi}
	case i < a+b+c+d:
		return []uint64{c02Intact}
	case i < a+b+c+d+e:
		return []uint64{c02Short, uint64(i - a - b - c - d)}
	case i < c02Cases(ctx)-c02LinearCases:
		return []uint64{c02Random}
	default:
		return []uint64{c02Linear, uint64(i - (c02Cases(ctx) - c02LinearCases))}
	}
}

// c02Headers are the valid headers the exhaustive short-stream mode puts in
// front of every instruction stream: no metadata; and a viewBox chunk plus a
// one-entry 4-byte palette (so that palette references resolve to something
// that is neither black nor premultiplied-valid: a gradient-looking entry).
var c02Headers = [][]byte{
	{0x89, 'I', 'V', 'G', 0x00},
	{0x89, 'I', 'V', 'G', 0x04, 0x0a, 0x00, 0x50, 0x50, 0xb0, 0xb0, 0x0c, 0x02, 0xc0, 0x02, 0x8a, 0x8a, 0x00},
}

func encoderFile(t *tape.Tape) ([]byte, []world.Op) {
	// now and then with runs of hundreds of identical drawing calls: long
	// polylines exist, and a destination must stay linear on them
	prog := world.GenProgram(t, world.GenCfg{MaxItems: 10, EncOnly: true, LongRuns: 4, ManyStops: true})
	var e encode.Encoder
	world.Run(world.Target{Dst: &e, Enc: &e}, prog)
	b, err := e.Bytes()
	if err != nil {
		return nil, prog
	}
	return append([]byte(nil), b...), prog
}

func c02Run(ctx *Ctx, t *tape.Tape) *report.Violation {
	mode := t.Intn(256)
	st := ctx.Stats
	switch mode {
	case c02Literal:
		cfg := c02Cfg{rect: t.Intn(len(c02Rects)), withPalette: t.Intn(2) == 1}
		var s []byte
		for {
			// the rest of the tape is the file; a literal tape has no generator behind it
			if t.Pos() >= literalEnd(t) {
				break
			}
			s = append(s, byte(t.Draw(256)))
		}
		return c02Check(ctx, s, cfg, nil, true, []string{"literal stored bytes"})

	case c02Trunc:
		if len(ctx.Corpus) == 0 {
			return nil
		}
		f := ctx.Corpus[t.Intn(len(ctx.Corpus))]
		cfg := c02Cfg{rect: t.Intn(len(c02Rects)), withPalette: t.Chance(1, 4)}
		// the whole file with every cut (prefix + one-call-per-byte), then all
		// readers on every truncated copy
		if v := c02Check(ctx, f.Data, cfg, nil, true, []string{"source: " + f.Name + " (intact, every prefix)"}); v != nil {
			return v
		}
		for k := 0; k < len(f.Data); k++ {
			s := f.Data[:k:k]
			if v := c02Check(ctx, s, cfg, []int{k - 1}, false, []string{"source: " + f.Name, fmt.Sprintf("fault: truncate@%d", k)}); v != nil {
				return v
			}
			if st != nil {
				st.Add("fault_truncate", 1)
				st.Add("evaluations", 1)
				if k > 5 {
					st.Distinct(fnvAdd(fnv(s), 1))
				}
			}
		}
		if st != nil {
			st.Add("corpus_files_truncated_everywhere", 1)
		}
		return nil

	case c02Sweep:
		if len(ctx.Corpus) == 0 {
			return nil
		}
		f := ctx.Corpus[t.Intn(len(ctx.Corpus))]
		slice := t.Intn(15)
		cfg := c02Cfg{rect: t.Intn(len(c02Rects)), withPalette: t.Chance(1, 4)}
		buf := append([]byte(nil), f.Data...)
		eval := func(off int, nb byte, note string) *report.Violation {
			old := buf[off]
			if nb == old {
				if st != nil {
					st.Add("fault_noop", 1)
				}
				return nil
			}
			buf[off] = nb
			h := fnvAdd(fnv(buf), 2)
			cuts := []int{off, off + 1, off + 2, int(h % uint64(len(buf)+1))}
			v := c02Check(ctx, buf, cfg, cuts, false, []string{"source: " + f.Name, fmt.Sprintf("fault: set_byte@%d %02x->%02x %s", off, old, nb, note)})
			buf[off] = old
			if st != nil {
				st.Add("fault_set_byte", 1)
				st.Add("evaluations", 1)
				if off >= 4 {
					st.Distinct(h)
				}
			}
			return v
		}
		if ctx.Tier == "thorough" {
			// values slice*17+1 .. slice*17+17 added to the byte: all 255 other values over the 15 slices
			for off := range buf {
				for d := 1; d <= 17; d++ {
					if v := eval(off, buf[off]+byte(slice*17+d), "(exhaustive sweep)"); v != nil {
						return v
					}
				}
			}
			return nil
		}
		for off := range buf {
			for j := 0; j < sweepVals; j++ {
				if v := eval(off, sweepValue(buf[off], j), fmt.Sprintf("(class %d)", j)); v != nil {
					return v
				}
			}
		}
		return nil

	case c02Short:
		// A valid header, then EVERY instruction stream of the tier's length:
		// the case index fixes header and leading byte(s), the loop runs over
		// the last byte. In styling mode this reaches every opcode with every
		// first operand byte; "c0 80 80" prefixes (StartPath at the origin) put
		// the same enumeration into drawing mode.
		idx := t.Intn(1 << 30)
		cfg := c02Cfg{rect: 0}
		var fixed []byte
		if ctx.Tier == "thorough" {
			fixed = []byte{byte(idx >> 8), byte(idx)}
			idx >>= 16
		} else {
			fixed = []byte{byte(idx)}
			idx >>= 8
		}
		hdr := c02Headers[idx%len(c02Headers)]
		for _, pre := range [][]byte{nil, {0xc0, 0x80, 0x80}} {
			for last := 0; last < 256; last++ {
				s := append(append(append(append([]byte(nil), hdr...), pre...), fixed...), byte(last))
				if v := c02Check(ctx, s, cfg, nil, true, []string{"exhaustive short instruction stream after a valid header"}); v != nil {
					return v
				}
				if st != nil {
					st.Add("evaluations", 1)
					st.Add("short_streams", 1)
					st.Distinct(fnvAdd(fnv(s), 4))
				}
			}
		}
		return nil

	case c02Linear:
		if k := t.Intn(c02LinearCases); k >= c02LinearShapes {
			return c02HugeCase(ctx, k-c02LinearShapes)
		} else {
			return c02LinearCase(ctx, k)
		}

	case c02Random:
		hdr := c02Headers[t.Intn(len(c02Headers))]
		s := append([]byte(nil), hdr...)
		if t.Chance(1, 6) {
			fw := &world.Foreign{}
			fw.Header(t)
			s = append([]byte(nil), fw.B...)
		}
		n := t.Range(0, 64)
		r := t.Sub()
		drawBias := t.Chance(1, 2)
		if drawBias {
			s = append(s, 0xc0, 0x80, 0x80)
		}
		for i := 0; i < n; i++ {
			b := byte(r.Next())
			if drawBias && r.Next()%4 == 0 {
				b &= 0xdf // keep more bytes below 0xe0: drawing opcodes with operands
			}
			s = append(s, b)
		}
		if st != nil {
			st.Add("evaluations", 1)
			st.Add("random_streams", 1)
			st.Distinct(fnvAdd(fnv(s), 5))
		}
		return c02Check(ctx, s, c02Cfg{rect: t.Intn(len(c02Rects)), withPalette: t.Chance(1, 4)}, nil, true, []string{"random bytes after a header"})

	case c02Multi, c02Intact:
		var s []byte
		var marks []world.Mark
		var origin []string
		src := t.Pick(4, 3, 3)
		switch src {
		case 0:
			if len(ctx.Corpus) == 0 {
				return nil
			}
			f := ctx.Corpus[t.Intn(len(ctx.Corpus))]
			s, origin = f.Data, []string{"source: " + f.Name}
		case 1:
			b, prog := encoderFile(t)
			s = b
			origin = append([]string{"source: written by the real Encoder from the program"}, world.FormatOps(prog, 16)...)
		default:
			fw := world.GenForeign(t)
			s, marks = fw.B, fw.Marks
			origin = []string{"source: written by the foreign writer"}
		}
		if st != nil {
			st.Add(fmt.Sprintf("source_%d", src), 1)
		}
		cfg := c02Cfg{rect: t.Intn(len(c02Rects)), withPalette: t.Chance(1, 4)}
		if mode == c02Intact {
			if st != nil {
				st.Add("evaluations", 1)
				st.Add("intact_reads", 1)
				_, err, _ := decodeRec(ctx.Quiet(), s)
				if err != nil && src != 2 {
					st.Add("intact_rejected", 1)
				}
			}
			return c02Check(ctx, s, cfg, nil, len(s) <= 256, origin)
		}
		// swarm: which fault kinds are enabled for this run
		var enabled [world.NFaultKinds]bool
		any := false
		for k := range enabled {
			enabled[k] = t.Chance(1, 2)
			any = any || enabled[k]
		}
		if !any {
			enabled[world.FSetByte] = true
		}
		nFaults := 1 + t.Pick(5, 3, 2, 1)
		var other []byte
		if len(ctx.Corpus) > 0 {
			other = ctx.Corpus[t.Intn(len(ctx.Corpus))].Data
		}
		cuts := []int{}
		cur := s
		changed := false
		for i := 0; i < nFaults; i++ {
			if marks == nil || i > 0 {
				marks = world.ScanMarks(cur)
			}
			next, f := world.Inject(t, cur, marks, other, enabled)
			origin = append(origin, "fault: "+f.String())
			if bytes.Equal(next, cur) {
				if st != nil {
					st.Add("fault_noop", 1)
				}
			} else {
				changed = true
				if st != nil {
					st.Add("fault_"+f.Kind.String(), 1)
				}
			}
			cuts = append(cuts, f.Off-1, f.Off, f.Off+1, f.Off+f.Len)
			cur = next
		}
		cuts = append(cuts, t.Intn(len(cur)+1), t.Intn(len(cur)+1))
		if st != nil {
			st.Add("evaluations", 1)
			if changed {
				if ok, _ := model.MetadataValid(cur); ok {
					st.Distinct(fnvAdd(fnv(cur), 3))
					st.Add("multi_past_header", 1)
				} else {
					st.Add("multi_failed_in_header", 1)
				}
			}
			if st.WantSample(6) && changed && t.Pos()%7 == 0 {
				calls, err, _ := decodeRec(ctx.Quiet(), cur)
				st.Sample(6, map[string]interface{}{"origin": origin, "stored_hex": hexShort(cur, 120), "decode_error": errText(err), "calls_delivered": len(calls)})
			}
		}
		return c02Check(ctx, cur, cfg, cuts, len(cur) <= 160, origin)
	}
	return nil
}

// longStream builds a valid, repetitive stream of about n bytes of the given
// shape: the kinds of input whose cost per byte a reader could get wrong.
func longStream(shape, n int) []byte {
	s := []byte{0x89, 'I', 'V', 'G', 0x00}
	var unit []byte
	drawing := true
	switch shape {
	case 0: // alternating H / V: every op ends the previous run (one flush per op in an Encoder)
		unit = []byte{0xe6, 0x70, 0xe8, 0x90}
	case 1: // maximal repeat groups of one verb
		unit = append([]byte{0x1f}, bytes.Repeat([]byte{0x82, 0x7e}, 32)...)
	case 2: // selector writes
		unit, drawing = []byte{0x05, 0x45, 0x3f, 0x7f}, false
	case 3: // many tiny paths
		unit, drawing = []byte{0xc0, 0x80, 0x80, 0xe1}, false
	case 4: // 4-byte colours into registers, incrementing
		unit, drawing = []byte{0x9f, 0x10, 0x20, 0x30, 0x40}, false
	case 5: // alternating absolute / relative cubics
		unit = []byte{0xa0, 0x70, 0x72, 0x74, 0x76, 0x78, 0x7a, 0xb0, 0x82, 0x84, 0x86, 0x7e, 0x7c, 0x7a}
	case 6: // close-and-move ops
		unit = []byte{0xe2, 0x70, 0x90, 0xe3, 0x82, 0x7e}
	case 7: // 4-byte floats into number registers
		unit, drawing = []byte{0xaf, 0x03, 0x00, 0x80, 0x3f}, false
	default: // arcs, one per opcode, alternating kinds
		unit = []byte{0xc0, 0x90, 0x88, 0x1e, 0x06, 0x70, 0x90, 0xd0, 0x88, 0x90, 0x00, 0x02, 0x84, 0x7c}
	}
	if drawing {
		s = append(s, 0xc0, 0x80, 0x80)
	}
	for len(s) < n {
		s = append(s, unit...)
	}
	if drawing {
		s = append(s, 0xe1)
	}
	return s
}

// measured runs f on a goroutine of its own (so that it starts on a small
// stack) and returns what it cost: the bytes it allocated and by how much the
// stacks in use grew while it ran. Both are read from the runtime's own
// counters; a stack that has grown is not shrunk again before the next
// collection looks at the goroutine, so the high-water mark is still there
// when f returns. No clock is consulted.
func measured(f func()) (alloc, stack uint64, panicked bool, msg string) {
	done := make(chan struct{})
	go func() {
		defer close(done)
		var a, b runtime.MemStats
		runtime.ReadMemStats(&a)
		panicked, _, msg = guard(f)
		runtime.ReadMemStats(&b)
		alloc = b.TotalAlloc - a.TotalAlloc
		if b.StackInuse > a.StackInuse {
			stack = b.StackInuse - a.StackInuse
		}
	}()
	<-done
	return
}

// threadCPUTime reads CLOCK_THREAD_CPUTIME_ID (nanosecond resolution, charged
// by the scheduler, not by timer ticks).
func threadCPUTime() (time.Duration, bool) {
	var ts syscall.Timespec
	const clockThreadCPUTimeID = 3
	if _, _, e := syscall.Syscall(syscall.SYS_CLOCK_GETTIME, clockThreadCPUTimeID, uintptr(unsafe.Pointer(&ts)), 0); e != 0 {
		return 0, false
	}
	return time.Duration(ts.Nano()), true
}

// bestCPUTime runs f three times on a goroutine locked to its thread and
// returns the smallest CPU time (user+system) the thread was charged.
func bestCPUTime(ctx *Ctx, f func()) time.Duration {
	best := time.Duration(math.MaxInt64)
	done := make(chan struct{})
	go func() {
		defer close(done)
		runtime.LockOSThread()
		defer runtime.UnlockOSThread()
		// no collection inside the timed region (its cost is not linear in the
		// work done): one before each repetition, none during
		defer debug.SetGCPercent(debug.SetGCPercent(-1))
		for i := 0; i < 3; i++ {
			runtime.GC()
			a, ok := threadCPUTime()
			if !ok {
				best = 0 // no such clock here: the arm says nothing
				return
			}
			guard(f)
			b, _ := threadCPUTime()
			d := b - a
			if d < best {
				best = d
			}
			ctx.Beat()
		}
	}()
	<-done
	return best
}

// c02LinearCase: "work and rasteriser activity are linear in input length".
// Time is not a deterministic measure; the volume of memory a reader
// allocates is, and it is where superlinear work shows first (copying of
// ever longer buffers). Each reader gets the same shape at n and at 4n bytes:
// an amortised-doubling buffer lies between 2x and 8x, quadratic behaviour
// gives 16x; the bound is 12x plus a constant. Delivered calls and rasteriser
// calls are counted too and must not grow faster than the input.
func c02LinearCase(ctx *Ctx, shape int) *report.Violation {
	n := 8 << 10
	if ctx.Tier == "thorough" {
		n = 24 << 10
	}
	small, big := longStream(shape, n), longStream(shape, 4*n)
	type reader struct {
		name string
		run  func(s []byte) (activity int)
		lean func(s []byte)
	}
	intoEncoder := func(s []byte) int {
		var e encode.Encoder
		_ = decode.Decode(&e, s)
		b, _ := e.Bytes()
		return len(b)
	}
	disassemble := func(s []byte) int {
		out, _ := decode.Disassemble(s)
		return len(out)
	}
	readers := []reader{
		{"Decode into a recorder", func(s []byte) int {
			rd := &world.RecDest{}
			_ = decode.Decode(rd, s)
			return len(rd.Calls)
		}, func(s []byte) { _ = decode.Decode(&countDest{}, s) }},
		{"Decode into a Renderer", func(s []byte) int {
			rz := &world.RecRaster{NoSnap: true}
			var rn render.Renderer
			rn.SetRasterizer(rz, image.Rect(0, 0, 32, 32))
			_ = decode.Decode(&rn, s)
			return len(rz.Ops)
		}, func(s []byte) {
			rz := &world.RecRaster{NoSnap: true, CountOnly: true}
			var rn render.Renderer
			rn.SetRasterizer(rz, image.Rect(0, 0, 32, 32))
			_ = decode.Decode(&rn, s)
		}},
		{"Decode into an Encoder", intoEncoder, func(s []byte) { intoEncoder(s) }},
		{"Disassemble", disassemble, func(s []byte) { disassemble(s) }},
	}
	for _, r := range readers {
		var act1, act4 int
		ctx.SetLiteral(nil)
		ctx.Beat()
		a1, s1, p1, m1 := measured(func() { act1 = r.run(small) })
		ctx.Beat()
		a4, s4, p4, m4 := measured(func() { act4 = r.run(big) })
		ctx.Beat()
		lin := func(v *report.Violation) *report.Violation {
			v.Trace = []string{fmt.Sprintf("shape %d: %s… repeated", shape, hexShort(small[:min(len(small), 40)], 80))}
			v.Tape = []uint64{c02Linear, uint64(shape)}
			v.KeepPrefix = 2
			v.Signature = v.Invariant
			return v
		}
		if p1 || p4 {
			return lin(viol("C02", "panic", "%s panicked on a long well-formed stream (%d / %d bytes): %s%s", r.name, len(small), len(big), m1, m4))
		}
		if s4 > s1+(512<<10) {
			return lin(viol("C02", "linear-work", "%s: reading a %d-byte stream grows the stack by %d bytes, the same shape at %d bytes by %d bytes: stack depth grows with the input (recursion instead of iteration), which ends in a fatal stack overflow for inputs of a few megabytes", r.name, len(small), s1, len(big), s4))
		}
		if a4 > 12*a1+(1<<20) {
			v := viol("C02", "linear-work", "%s: a %d-byte stream makes it allocate %d bytes, the same shape at %d bytes %d bytes (%.1fx for 4x the input; amortised buffers stay below 8x, quadratic work gives 16x)", r.name, len(small), a1, len(big), a4, float64(a4)/float64(a1+1))
			v.Trace = []string{fmt.Sprintf("shape %d: %s… repeated", shape, hexShort(small[:min(len(small), 40)], 80))}
			v.Tape = []uint64{c02Linear, uint64(shape)}
			v.KeepPrefix = 2
			v.Signature = v.Invariant
			return v
		}
		if act4 > 5*act1+64 {
			v := viol("C02", "linear-work", "%s: activity (calls / rasteriser calls / output bytes) grows from %d to %d for 4x the input", r.name, act1, act4)
			v.Tape = []uint64{c02Linear, uint64(shape)}
			v.KeepPrefix = 2
			v.Signature = v.Invariant
			return v
		}
		// Work that allocates nothing and recurses nowhere (moving an ever longer
		// tail of a buffer, rescanning) shows in none of the counters above. The
		// last resort is the CPU time of the reading thread (never the wall
		// clock: a thread that waits is not charged), at sizes where a
		// quadratic term dominates, best of three at each size: linear work
		// gives 4x for 4x the input (up to ~6x when the larger input falls out
		// of a cache level, and up to ~8x was seen for readers whose time is
		// dominated by the harness's own recording buffers on a loaded machine),
		// quadratic work 16x.
		tn := 192 << 10 // both tiers: the heap of one read stays far below the watchdog's limit
		ts, tm, tb := longStream(shape, tn), longStream(shape, 2*tn), longStream(shape, 4*tn)
		var t1, t2, t4 time.Duration
		lean := r.lean // the same reader without the harness's recording buffers (memory, and time that is not the reader's)
		measure := func() {
			t1, t2, t4 = bestCPUTime(ctx, func() { lean(ts) }), bestCPUTime(ctx, func() { lean(tm) }), bestCPUTime(ctx, func() { lean(tb) })
		}
		// three sizes, so that a one-time step (the larger input falling out of
		// a cache level) is not mistaken for growth: BOTH doublings must cost
		// more than 3x (linear work: 2x each, quadratic work: 4x each)
		slow := func() bool { return t1 > 0 && t2 > 0 && t4 > 40*time.Millisecond && t2 > 3*t1 && t4 > 3*t2 }
		measure()
		if slow() {
			measure() // measured again before anything is said
		}
		if slow() {
			return lin(viol("C02", "linear-work", "%s: reading a %d-byte stream costs %v of CPU time, the same shape at %d bytes %v and at %d bytes %v (%.1fx and %.1fx for each doubling of the input, best of three each; linear work gives about 2x per doubling, quadratic work 4x)", r.name, len(ts), t1, len(tm), t2, len(tb), t4, float64(t2)/float64(t1), float64(t4)/float64(t2)))
		}
		if ctx.Stats != nil {
			ctx.Stats.Max("max_cpu_time_growth_x100_for_4x_input", int64(100*float64(t4)/float64(t1+1)))
			if a, b := float64(t2)/float64(t1+1), float64(t4)/float64(t2+1); a < b {
				ctx.Stats.Max("max_smaller_doubling_factor_x100", int64(100*a))
			} else {
				ctx.Stats.Max("max_smaller_doubling_factor_x100", int64(100*b))
			}
		}
		if ctx.Stats != nil {
			ctx.Stats.Add("evaluations", 1)
			ctx.Stats.Add("linear_work_measurements", 1)
			ctx.Stats.Max("max_allocation_growth_x100_for_4x_input", int64(100*float64(a4)/float64(a1+1)))
			ctx.Stats.Max("max_stack_growth_bytes_at_4n", int64(s4))
			ctx.Stats.Distinct(fnvAdd(uint64(shape)<<8|uint64(len(r.name)), 6))
		}
	}
	return nil
}

// literalEnd is the number of values on a replay tape; for a generating tape
// (never the case for literal mode in practice) it stops immediately.
func literalEnd(t *tape.Tape) int { return t.Len() }

func init() {
	register(&Property{
		ID:              "C02",
		Level:           "fault_enumeration",
		Cases:           c02Cases,
		Prefix:          c02Prefix,
		Run:             c02Run,
		HangIsViolation: true,
		NeedsCorpus:     true,
		Describe: func(tier string, s *report.Stats, cases int) Evidence {
			ev := Evidence{
				Rule: "Cases are stored byte strings after storage faults: (a) every truncation point of every corpus file, all five readers on each; (b) every byte offset of every corpus file with the byte replaced (quick: 8 value classes, thorough: all 255 other values); (c) seeded runs of 1-4 faults (truncate, bit flip, byte set, zero/drop/duplicate range, splice from another file, framing natural replaced, operand replaced by NaN/Inf/huge/denormal, garbage tail) over corpus files, files written by the real Encoder from generated programs and files written by the harness's own foreign FFV0 writer, with offsets biased to opcodes, operands, repeat groups, arc operands and framing naturals; (d) intact generated files; (e) exhaustive short streams: two valid headers (no metadata; viewBox + 4-byte palette) followed by every instruction stream of 2 bytes (quick) / 3 bytes (thorough), in styling mode and, behind a StartPath, in drawing mode; (f) random bytes after a valid or foreign-written header. distinct_nontrivial = set bits of a hash bitmap (lower bound on distinct inputs) over faulted inputs that differ from their original and, for sweeps, lie past the 4 magic bytes / for multi-fault runs still carry valid magic+metadata by the spec-derived validator, so that the fault is met by the instruction decoder and not by the magic check.",
				Extra: map[string]interface{}{
					"fault_kinds_fired":        s.SortedCounters("fault_"),
					"outcomes":                 s.SortedCounters("outcome_"),
					"sources":                  map[string]int64{"corpus": s.Counters["source_0"], "real_encoder": s.Counters["source_1"], "foreign_writer": s.Counters["source_2"]},
					"files_read":               s.Counters["files_read"],
					"exhaustive_short_streams": s.Counters["short_streams"],
					"random_streams":           s.Counters["random_streams"],
					"linear_work_measurements_(9 shapes x 4 readers at n and 4n bytes)": s.Counters["linear_work_measurements"],
					"very_long_well_formed_streams_(64 KiB+1 ... 32 MiB+7 bytes)":       s.Counters["huge_streams"],
					"longest_stream_bytes":                                                           s.Counters["max_bytes_in_one_stream"],
					"largest_allocation_growth_for_4x_the_input":                                     fmt.Sprintf("%.2fx", float64(s.Counters["max_allocation_growth_x100_for_4x_input"])/100),
					"largest_stack_growth_while_reading_the_4n_stream_bytes":                         s.Counters["max_stack_growth_bytes_at_4n"],
					"largest_smaller_of_the_two_doubling_factors_(bound 3.0; linear 2, quadratic 4)": fmt.Sprintf("%.2fx", float64(s.Counters["max_smaller_doubling_factor_x100"])/100),
					"largest_cpu_time_growth_for_4x_the_input_(thread CPU time, best of 3)":          fmt.Sprintf("%.2fx", float64(s.Counters["max_cpu_time_growth_x100_for_4x_input"])/100),
					"prefix_comparisons":                                                             s.Counters["prefix_checks"],
					"calls_delivered":                                                                s.Counters["calls_delivered"],
					"raster_ops_recorded":                                                            s.Counters["raster_ops"],
					"reach_probes": map[string]int64{
						"decode error after >=1 delivered call beyond Reset": s.Counters["probe_error_after_delivered_call"],
						"multi-fault input still past the header":            s.Counters["multi_past_header"],
						"multi-fault input failed in magic/metadata":         s.Counters["multi_failed_in_header"],
						"max curve segments for one Destination call":        s.Counters["max_segments_per_call"],
						"corpus files truncated at every offset":             s.Counters["corpus_files_truncated_everywhere"],
						"intact generated files rejected (harness health)":   s.Counters["intact_rejected"],
					},
					"simulated_time": "none: ivg has no clock; the unit of work is one read of one stored file by five readers",
					"components": map[string]string{
						"real": "decode.Decode, decode.DecodeViewBox, decode.Disassemble, render.Renderer (+Gradient paints poked in Draw), encode.Encoder (as transcoding destination and as writer of source files), ivg colour/metadata code",
						"stub": "in-memory store with fault injector, foreign FFV0 writer, recording Destination, counting proxy, recording Rasterizer with x/image/vector pen semantics, spec-derived metadata validator",
					},
				},
				Assumptions: []string{
					"the rasteriser behind the Renderer is the recording stub; golang.org/x/image/vector is not exercised on corrupt input (it panics on ~1e38 coordinates, outside this property's observation point)",
					"'metadata valid' is judged by a validator written from spec/iconvg-spec-v0.md that ignores MID order/uniqueness and accepts unknown MIDs of consistent length; the oracle only uses delivered => valid",
					"a hang is declared after 20 s without a progress beacon; memory exhaustion above 1.5 GiB of heap",
				},
			}
			if tier == "thorough" {
				ev.Extra["exhaustive_subspace"] = "single-byte replacement: every offset of every corpus file x all 255 other values, every truncation point, and every 3-byte instruction stream after two valid headers (styling and drawing mode) are enumerated completely; the multi-fault and random spaces are sampled"
			} else {
				ev.Extra["exhaustive_subspace"] = "every truncation point of every corpus file and every 2-byte instruction stream after two valid headers are enumerated completely; single-byte replacement covers 8 value classes per offset; the multi-fault and random spaces are sampled"
			}
			return ev
		},
	})
}
