//go:build race

package props

// raceEnabled: this binary was built with -race (the C18 race arm).
const raceEnabled = true
