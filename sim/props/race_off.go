//go:build !race

package props

const raceEnabled = false
