//go:build verif

package props

import (
	"github.com/reactivego/ivg/verifsim"
)

// This half only exists in the binary built against the instrumented scratch
// copy of the tree (package verifsim is generated into that copy).
func init() {
	c18Install = func(h func(int)) { verifsim.Hook = h }
	c18Globals = verifsim.Globals
	c18Sites = func() []string { return verifsim.Sites }
	c18Skipped = func() []string { return verifsim.Skipped }
}
