package props

import (
	"runtime/debug"
	"testing"

	"github.com/reactivego/ivg"
	"github.com/reactivego/ivg/render"
)

func stackOf(f func()) (st string) {
	defer func() {
		if recover() != nil {
			st = string(debug.Stack())
		}
	}()
	f()
	return
}

func TestPanicAttribution(t *testing.T) {
	// a panic inside the library: a Renderer without a rasteriser
	lib := stackOf(func() {
		var r render.Renderer
		r.Reset(ivg.DefaultViewBox, ivg.DefaultPalette)
		r.StartPath(0, 0, 0)
		r.AbsLineTo(1, 1)
		r.ClosePathEndPath()
	})
	if lib == "" {
		t.Skip("the library did not panic here; nothing to attribute")
	}
	if !panicRaisedByCodeUnderTest(lib) {
		t.Fatalf("library panic not attributed to the code under test:\n%s", lib)
	}
	// a panic of the harness's own
	own := stackOf(func() {
		var a []int
		_ = a[3]
	})
	if panicRaisedByCodeUnderTest(own) {
		t.Fatalf("harness panic attributed to the code under test:\n%s", own)
	}
	own2 := stackOf(func() { panic("explicit") })
	if panicRaisedByCodeUnderTest(own2) {
		t.Fatalf("explicit harness panic attributed to the code under test:\n%s", own2)
	}
}
