package props

import (
	"bytes"
	"fmt"
	"image"
	"image/color"
	"math"
	"os"
	"reflect"
	"runtime"
	"runtime/debug"
	"sort"
	"strings"
	"sync"

	"github.com/reactivego/ivg"
	"github.com/reactivego/ivg/decode"
	"github.com/reactivego/ivg/encode"
	"github.com/reactivego/ivg/generate"
	"github.com/reactivego/ivg/mdicons"
	"github.com/reactivego/ivg/raster"
	"github.com/reactivego/ivg/raster/vec"
	"github.com/reactivego/ivg/render"
	"golang.org/x/image/math/f32"

	"verif/sim/report"
	"verif/sim/sched"
	"verif/sim/tape"
	"verif/sim/world"
)

// C18 — independent decodes, renders and encodes are safe to run
// concurrently. The simulated nondeterminism is the schedule (seam S4): the
// check runs against a scratch copy of the tree in which a yield call has
// been inserted before every statement, and the baton scheduler of package
// sched, driven by the tape, decides at each of those sites whether the
// running pipeline is preempted and who runs next.

// Set by the verif-tagged half (c18_verif.go) when the binary is built
// against the instrumented copy.
var (
	c18Install func(func(int))                                 // plugs the scheduler hook into the library
	c18Globals func() map[string]func() map[string]interface{} // package -> name -> pointer
	c18Sites   func() []string
	c18Skipped func() []string
)

type globalVar struct {
	name    string
	ptr     interface{}
	shallow bool // safe to compare its direct bytes (no sync bookkeeping inside)
}

var c18GlobalList []globalVar

func c18LoadGlobals() {
	if c18GlobalList != nil || c18Globals == nil {
		return
	}
	g := c18Globals()
	pkgs := make([]string, 0, len(g))
	for p := range g {
		pkgs = append(pkgs, p)
	}
	sort.Strings(pkgs)
	for _, p := range pkgs {
		m := g[p]()
		names := make([]string, 0, len(m))
		for n := range m {
			names = append(names, n)
		}
		sort.Strings(names)
		for _, n := range names {
			if world.TypeIsSync(m[n]) {
				continue
			}
			c18GlobalList = append(c18GlobalList, globalVar{name: p + "." + n, ptr: m[n], shallow: !world.ContainsSync(m[n])})
		}
	}
}

func siteName(id int) string {
	if c18Sites != nil {
		if s := c18Sites(); id >= 0 && id < len(s) {
			return s[id]
		}
	}
	return fmt.Sprintf("site %d", id)
}

// ---------------------------------------------------------------------------

type c18Pool struct {
	files       [][]byte // shared source byte slices (some faulted)
	fileDesc    []string
	intact      []bool // an unfaulted corpus file: the only kind the real vec back end is given
	pals        []*[64]color.RGBA
	progs       [][]world.Op
	sheet       *image.RGBA // a sprite sheet: some real-rasteriser pipelines draw into their own cell (a SubImage) of it
	nextCell    int
	arena       int              // index of a file that is the front part of a larger array whose rest belongs to a loader task (-1: none)
	loaderTaken bool             // at most one loader per case
	grad        *render.Gradient // an initialised gradient shared as a read-only image source
	mdPaths     []*mdicons.Path  // parsed SVG paths shared by several conversions
	mdCircles   []mdicons.Circle // the <circle> elements of one parsed icon, shared by several conversions (spare capacity, degenerate radii)
	rstops      [][]render.Stop  // gradient stops in the Renderer's own form, shared by direct users of render.Gradient
	firstUse    [][]world.Op     // earlier uses of an object that lives through two uses: may start without Reset, with observers
	cregs       *[64]color.RGBA
	// option values built once per case and shared by every task that decodes
	// with options (an application keeps such values around and reuses them)
	opts     []decode.DecodeOption // a shared option table WITH SPARE CAPACITY: callers spread sub-slices of it into Decode
	affs     []generate.Aff3       // the same for SetTransform's variadic argument
	optsDesc string
	// a configured Generator kept as a template: pipelines take a copy by
	// value and set their own destination and transform on the copy
	tmpl generate.Generator
	// rasterisers that long-lived Renderers borrow for one decode and hand back
	rz *c18RasterPool
}

// what the pipelines print (DestinationLogger, RasterizerLogger) is part of
// what they produce: it is captured in a scratch file that takes the place
// of os.Stdout while tasks run (created once per process, unlinked at once)
var c18OutFile *os.File

func c18Capture(f func()) string {
	if c18OutFile == nil {
		if tf, err := os.CreateTemp("", "ivgsim-c18-stdout-*"); err == nil {
			os.Remove(tf.Name())
			c18OutFile = tf
		}
	}
	if c18OutFile == nil {
		f()
		return ""
	}
	_ = c18OutFile.Truncate(0)
	_, _ = c18OutFile.Seek(0, 0)
	old := os.Stdout
	os.Stdout = c18OutFile
	defer func() { os.Stdout = old }()
	f()
	n, _ := c18OutFile.Seek(0, 1)
	buf := make([]byte, n)
	_, _ = c18OutFile.ReadAt(buf, 0)
	return string(buf)
}

// sortedLines is the multiset of lines of a captured output.
func sortedLines(outs ...string) []string {
	var l []string
	for _, o := range outs {
		for _, x := range strings.Split(o, "\n") {
			if x != "" {
				l = append(l, x)
			}
		}
	}
	sort.Strings(l)
	return l
}

type c18Task struct {
	name string
	run  func() string // returns a digest of everything the task produced
	// kept, when set by run, is a byte result the task still holds (a caller
	// keeps what it was given): it is hashed again after every other task has
	// finished, because a result that aliases recycled storage changes under
	// its holder only later.
	kept *[]byte
}

func digestRast(ops []world.RastOp, err error) string {
	h := fnv([]byte(errText(err)))
	for i := range ops {
		o := &ops[i]
		h = fnvAdd(h, uint64(o.K)|uint64(o.W)<<8|uint64(o.H)<<32)
		for _, f := range o.F {
			h = fnvAdd(h, uint64(float32bits(f)))
		}
		if o.K == world.RDraw {
			h = fnvAdd(h, fnv([]byte(fmt.Sprint(o.R, o.SP, o.Paint))))
		}
	}
	return fmt.Sprintf("%d rasteriser calls, err=%s, digest %016x", len(ops), errText(err), h)
}

func digestCalls(calls []world.Op, err error) string {
	return fmt.Sprintf("%d calls, err=%s, digest %016x", len(calls), errText(err), hashOps(calls))
}

var c18Rects = []image.Rectangle{image.Rect(0, 0, 32, 32), image.Rect(0, 0, 48, 20), image.Rect(3, 5, 40, 37)}

func c18BuildPool(ctx *Ctx, t *tape.Tape) *c18Pool {
	p := &c18Pool{rz: newC18RasterPool(2)}
	n := t.Range(2, 4)
	for i := 0; i < n; i++ {
		var b []byte
		desc := ""
		fromCorpus := false
		switch t.Pick(4, 3) {
		case 0:
			if len(ctx.Corpus) > 0 {
				for try := 0; try < 8; try++ {
					f := ctx.Corpus[t.Intn(len(ctx.Corpus))]
					if len(f.Data) <= 1500 || try == 7 {
						b, desc = append([]byte(nil), f.Data...), f.Name
						fromCorpus = true
						break
					}
				}
			}
		}
		if b == nil && t.Chance(1, 5) {
			// written by somebody else's encoder: non-canonical number forms,
			// chunks out of order or repeated, palettes in every format
			b, desc = world.GenForeign(t).B, "written by the foreign writer"
		}
		if b == nil {
			gc := world.GenCfg{MaxItems: 6, EncOnly: true}
			if t.Chance(1, 40) {
				// a big graphic now and then (several kB, a listing of 100 kB and
				// more): buffers grow through their size classes
				gc.MaxItems, gc.LongRuns = 10, 60
			}
			prog := world.GenProgram(t, gc)
			b, desc = encodeOps(prog), "written by the Encoder from a generated program"
		}
		intact := true
		if i > 0 && t.Chance(1, 4) {
			// nearly the same file as its neighbour: one operand byte differs
			// (what collides in a cache keyed on length, prefix or a weak hash)
			b = append([]byte(nil), p.files[i-1]...)
			desc = p.fileDesc[i-1] + " with one byte changed"
			fromCorpus = false
			if len(b) > 8 {
				off := 6 + t.Intn(len(b)-7)
				b[off] ^= byte(1 << uint(t.Intn(8)))
			}
		}
		if t.Chance(1, 4) {
			var enabled [world.NFaultKinds]bool
			for k := range enabled {
				enabled[k] = true
			}
			var f world.Fault
			b, f = world.Inject(t, b, world.ScanMarks(b), nil, enabled)
			desc += " + " + f.String()
			intact = false
		}
		// callers' slices may have spare capacity: the backing array beyond len
		// is theirs too, and is watched like the rest
		b = append(make([]byte, 0, len(b)+4+t.Intn(8)), b...)
		p.files = append(p.files, b)
		p.fileDesc = append(p.fileDesc, desc)
		p.intact = append(p.intact, intact && fromCorpus)
	}
	// one file may be the front part of an arena: the bytes right behind it
	// belong to somebody else (a loader appending the next item), who writes
	// them while the file is being read. Its spare capacity is therefore not
	// watched by hash; the race arm watches it instead.
	p.sheet = image.NewRGBA(image.Rect(0, 0, 40, 4*40))
	p.arena = -1
	if t.Bool() {
		p.arena = t.Intn(len(p.files))
		f := p.files[p.arena]
		buf := make([]byte, len(f)+64)
		copy(buf, f)
		p.files[p.arena] = buf[:len(f)]
	}
	for i := 0; i < 2; i++ {
		pal := world.GenPalette(t)
		// a caller-supplied palette may hold anything: also colours that are
		// not premultiplied, and gradient-looking entries
		for j := t.Intn(4); j > 0; j-- {
			pal[t.Intn(64)] = color.RGBA{uint8(t.Intn(256)), uint8(t.Intn(256)), uint8(t.Intn(256)), uint8(t.Intn(3) * 0x7f)}
		}
		p.pals = append(p.pals, pal)
	}
	for i := 0; i < 2; i++ {
		p.progs = append(p.progs, world.GenProgram(t, world.GenCfg{MaxItems: 5, Abstract: true, EncOnly: true, ForceReset: true, WildStops: true}))
	}
	for i := 0; i < 2; i++ {
		p.firstUse = append(p.firstUse, world.GenProgram(t, world.GenCfg{MaxItems: 3, Abstract: true, EncOnly: true, ReadFirst: true, NoReset: t.Bool()}))
	}
	for i := 0; i < 2; i++ {
		n := 1 + t.Intn(5)
		st := make([]render.Stop, n, n+2)
		for j := range st {
			// offsets in document order: mostly increasing, sometimes not
			st[j].Offset = float64(t.Intn(65)) / 64
			if j > 0 && t.Chance(3, 4) && st[j].Offset < st[j-1].Offset {
				st[j].Offset = st[j-1].Offset
			}
			a := uint16(t.Intn(65536))
			st[j].RGBA64 = color.RGBA64{uint16(t.Intn(int(a) + 1)), uint16(t.Intn(int(a) + 1)), uint16(t.Intn(int(a) + 1)), a}
		}
		p.rstops = append(p.rstops, st)
	}
	for _, pr := range append(append([][]world.Op(nil), p.progs...), p.firstUse...) {
		for i := range pr {
			if n := len(pr[i].Stops); n > 0 {
				pr[i].Stops = append(make([]generate.GradientStop, 0, n+2), pr[i].Stops...)
			}
		}
	}
	p.grad = &render.Gradient{}
	p.grad.Init(render.Shape(t.Intn(2)), render.Spread(1+t.Intn(3)), render.Aff3{1.0 / 32, 0, 0, 0, 1.0 / 32, 0}, []render.Stop{
		{Offset: 0.125, RGBA64: color.RGBA64{0xffff, 0, 0x1111, 0xffff}},
		{Offset: float64(2+t.Intn(5)) / 8, RGBA64: color.RGBA64{0, uint16(t.Intn(0x8000)), 0x7fff, 0x7fff}},
		{Offset: 0.875, RGBA64: color.RGBA64{0x1234, 0x4321, uint16(t.Intn(0xffff)), 0xffff}},
	})
	for i := 0; i < 2; i++ {
		mp := &mdicons.Path{D: world.GenPathData(t, false)}
		if t.Chance(3, 4) {
			o := float32(1+t.Intn(4)) / 4
			mp.Opacity = &o
		}
		if t.Chance(3, 4) {
			o := float32(1+t.Intn(4)) / 4
			mp.FillOpacity = &o
		}
		p.mdPaths = append(p.mdPaths, mp)
	}
	// the circles of one parsed icon, as an XML decoder leaves them: a slice
	// with spare capacity; a radius may be zero or negative (hand-edited files)
	nc := 1 + t.Intn(4)
	p.mdCircles = make([]mdicons.Circle, nc, nc+2)
	for i := range p.mdCircles {
		p.mdCircles[i] = mdicons.Circle{Cx: float32(t.Range(4, 44)), Cy: float32(t.Range(4, 44)), R: float32(t.Range(-1, 6))}
	}
	for i := nc; i < nc+2; i++ {
		p.mdCircles[:nc+2][i] = mdicons.Circle{Cx: 7, Cy: 7, R: 7}
	}
	p.cregs = world.GenPalette(t)
	p.cregs[t.Intn(64)] = color.RGBA{uint8(t.Intn(256)), uint8(t.Intn(256)), uint8(t.Intn(256)), 0}
	idx := t.Intn(64)
	var col color.Color
	switch t.Intn(4) {
	case 0:
		col = color.RGBA{uint8(t.Intn(256)), uint8(t.Intn(256)), uint8(t.Intn(256)), 0xff}
	case 1:
		col = color.NRGBA{uint8(t.Intn(256)), uint8(t.Intn(256)), uint8(t.Intn(256)), uint8(t.Intn(256))}
	case 2:
		col = color.Gray{uint8(t.Intn(256))}
	default:
		col = color.RGBA64{uint16(t.Intn(65536)), uint16(t.Intn(65536)), uint16(t.Intn(65536)), 0xffff}
	}
	p.tmpl.SetTransform(generate.Scale(2), generate.Translate(-32, -32))
	if t.Bool() {
		// a template that has already done work before it is copied (whatever
		// a Generator keeps from earlier conversions is then in every copy)
		var warm encode.Encoder
		warm.Reset(ivg.DefaultViewBox, ivg.DefaultPalette)
		p.tmpl.SetDestination(&warm)
		_ = p.tmpl.SetPathData("M-8 -8L8 -8Q8 8 0 8T-8 0A4 4 0 0 1 -8 -8z", 0)
		_ = p.tmpl.SetLinearGradient(-8, -8, 8, 8, generate.GradientSpreadPad, []generate.GradientStop{{Offset: 0, Color: color.RGBA{0xff, 0, 0, 0xff}}, {Offset: 1, Color: color.RGBA{0, 0, 0xff, 0xff}}})
		p.tmpl.SetDestination(nil)
	}
	p.opts = append(make([]decode.DecodeOption, 0, 4), decode.WithPalette(*p.pals[0]), decode.WithColorAt(idx, col))
	if t.Bool() {
		p.opts = append(p.opts, decode.WithColorAt((idx+1)&63, color.RGBA{0x10, 0x20, 0x30, 0xff}))
	}
	p.optsDesc = fmt.Sprintf("shared option table (len %d, cap %d): WithPalette(pal#0), WithColorAt(%d, %T%v), ...", len(p.opts), cap(p.opts), idx, col, col)
	p.affs = append(make([]generate.Aff3, 0, 4), generate.Scale(float32(1+t.Intn(3))), generate.Translate(float32(t.Range(-16, 16)), float32(t.Range(-16, 16))))
	return p
}

func (p *c18Pool) hash() uint64 {
	h := uint64(14695981039346656037)
	for i, f := range p.files {
		if i == p.arena {
			h = fnvAdd(h, fnv(f))
			continue
		}
		h = fnvAdd(h, fnv(f[:cap(f)]))
	}
	for _, pal := range p.pals {
		for _, c := range pal {
			h = fnvAdd(h, uint64(c.R)|uint64(c.G)<<8|uint64(c.B)<<16|uint64(c.A)<<24)
		}
	}
	for _, c := range p.cregs {
		h = fnvAdd(h, uint64(c.R)|uint64(c.G)<<8|uint64(c.B)<<16|uint64(c.A)<<24)
	}
	h = fnvAdd(h, world.DeepHash(p.grad))
	for _, c := range p.mdCircles[:cap(p.mdCircles)] {
		h = fnvAdd(h, uint64(float32bits(c.Cx))|uint64(float32bits(c.Cy))<<32)
		h = fnvAdd(h, uint64(float32bits(c.R)))
	}
	for _, mp := range p.mdPaths {
		h = fnvAdd(h, fnv([]byte(mp.D+"|"+mp.Fill)))
		for _, o := range []*float32{mp.Opacity, mp.FillOpacity} {
			if o == nil {
				h = fnvAdd(h, 1)
			} else {
				h = fnvAdd(h, uint64(float32bits(*o))<<1)
			}
		}
	}
	// variadic tables: every slot of the backing array, also beyond len
	for _, o := range p.opts[:cap(p.opts)] {
		if o == nil {
			h = fnvAdd(h, 0)
		} else {
			h = fnvAdd(h, uint64(reflect.ValueOf(o).Pointer()))
		}
	}
	for _, a := range p.affs[:cap(p.affs)] {
		for _, f := range a {
			h = fnvAdd(h, uint64(float32bits(f)))
		}
	}
	for _, st := range p.rstops {
		for _, x := range st[:cap(st)] {
			h = fnvAdd(h, math.Float64bits(x.Offset))
			h = fnvAdd(h, uint64(x.RGBA64.R)|uint64(x.RGBA64.G)<<16|uint64(x.RGBA64.B)<<32|uint64(x.RGBA64.A)<<48)
		}
	}
	for _, pr := range append(append([][]world.Op(nil), p.progs...), p.firstUse...) {
		h = fnvAdd(h, hashOps(pr))
		for i := range pr {
			if pr[i].Pal != nil {
				for _, c := range pr[i].Pal {
					h = fnvAdd(h, uint64(c.R)|uint64(c.G)<<8|uint64(c.B)<<16|uint64(c.A)<<24)
				}
			}
			for _, s := range pr[i].Stops[:cap(pr[i].Stops)] {
				h = fnvAdd(h, uint64(float32bits(s.Offset)))
				// dynamic type and value: a conversion stored back into the
				// caller's slice changes the type even where the colour is the same
				switch c := s.Color.(type) {
				case color.RGBA:
					h = fnvAdd(h, 1<<40|uint64(c.R)|uint64(c.G)<<8|uint64(c.B)<<16|uint64(c.A)<<24)
				case color.NRGBA:
					h = fnvAdd(h, 2<<40|uint64(c.R)|uint64(c.G)<<8|uint64(c.B)<<16|uint64(c.A)<<24)
				case color.Gray16:
					h = fnvAdd(h, 3<<40|uint64(c.Y))
				case color.RGBA64:
					h = fnvAdd(h, 4<<40|uint64(c.R)|uint64(c.G)<<16|uint64(c.B)<<32|uint64(c.A)<<48)
				default:
					h = fnvAdd(h, fnv([]byte(fmt.Sprintf("%T%v", s.Color, s.Color))))
				}
			}
		}
	}
	return h
}

// c18MakeTask draws one task over the shared pool. Every task owns its
// destination objects; inputs are the pool's backing arrays themselves.
func c18MakeTask(t *tape.Tape, p *c18Pool) c18Task {
	fi := t.Intn(len(p.files))
	src := p.files[fi]
	rect := c18Rects[t.Intn(len(c18Rects))]
	logged := t.Chance(1, 8)
	wrap := func(d ivg.Destination) ivg.Destination { return wrapLog(d, logged, false) }
	suffix := fmt.Sprintf(" file#%d", fi)
	if logged {
		suffix += " via DestinationLogger"
	}
	switch t.Pick(4, 2, 4, 3, 1, 2, 3, 3, 2, 1, 2, 2, 1, 1, 2, 2, 1, 2, 2, 2) {
	case 0:
		return c18Task{name: "decode->Renderer->recording rasteriser" + suffix, run: func() string {
			z := &world.RecRaster{}
			var r render.Renderer
			r.SetRasterizer(z, rect)
			err := decode.Decode(wrap(&r), src)
			return digestRast(z.Ops, err)
		}}
	case 1:
		if !p.intact[fi] {
			// only intact corpus files go into the vec back end: x/image/vector
			// itself panics (integer divide by zero) on very large coordinates,
			// which faulted files and generated programs can carry
			return c18Task{name: "decode(faulted)->Renderer->recording rasteriser" + suffix, run: func() string {
				z := &world.RecRaster{}
				var r render.Renderer
				r.SetRasterizer(z, rect)
				err := decode.Decode(&r, src)
				return digestRast(z.Ops, err)
			}}
		}
		w, h := 8+t.Intn(40), 8+t.Intn(40)
		if p.nextCell < 4 && t.Bool() {
			// this pipeline's destination is its own cell of the shared sprite
			// sheet: a distinct image object over a disjoint part of one pixel
			// buffer (nobody else touches this cell; it clears it itself)
			cell := image.Rect(0, 40*p.nextCell, 40, 40*p.nextCell+40)
			p.nextCell++
			sheet := p.sheet
			return c18Task{name: fmt.Sprintf("decode->Renderer->vec.Rasterizer into cell %v of a shared sprite sheet", cell) + suffix, run: func() string {
				img := sheet.SubImage(cell).(*image.RGBA)
				for y := cell.Min.Y; y < cell.Max.Y; y++ {
					row := sheet.Pix[sheet.PixOffset(cell.Min.X, y):sheet.PixOffset(cell.Max.X, y)]
					for i := range row {
						row[i] = 0
					}
				}
				vz := vec.NewRasterizer(img)
				tz := &world.TameRaster{Rasterizer: vz, Limit: 50000}
				var r render.Renderer
				r.SetRasterizer(tz, img.Bounds())
				err := decode.Decode(&r, src)
				hh := uint64(3)
				for y := cell.Min.Y; y < cell.Max.Y; y++ {
					hh = fnvAdd(hh, fnv(sheet.Pix[sheet.PixOffset(cell.Min.X, y):sheet.PixOffset(cell.Max.X, y)]))
				}
				return fmt.Sprintf("err=%s cell pixels %016x segments %016x", errText(err), hh, tz.Hash)
			}}
		}
		return c18Task{name: fmt.Sprintf("decode->Renderer->vec.Rasterizer %dx%d", w, h) + suffix, run: func() string {
			img := image.NewRGBA(image.Rect(0, 0, w, h))
			vz := vec.NewRasterizer(img)
			tz := &world.TameRaster{Rasterizer: vz, Limit: 50000}
			var r render.Renderer
			r.SetRasterizer(tz, img.Bounds())
			err := decode.Decode(&r, src)
			return fmt.Sprintf("err=%s pixels %016x segments %016x", errText(err), fnv(img.Pix), tz.Hash)
		}}
	case 2:
		kept := new([]byte)
		return c18Task{name: "decode->Encoder->Bytes" + suffix, kept: kept, run: func() string {
			var e encode.Encoder
			err := decode.Decode(wrap(&e), src)
			b, berr := e.Bytes()
			*kept = b
			return fmt.Sprintf("err=%s bytes-err=%s %d bytes %016x", errText(err), errText(berr), len(b), fnv(b))
		}}
	case 3:
		kept := new([]byte)
		return c18Task{name: "Disassemble" + suffix, kept: kept, run: func() string {
			out, err := decode.Disassemble(src)
			*kept = out
			return fmt.Sprintf("err=%s %d bytes of listing %016x", errText(err), len(out), fnv(out))
		}}
	case 4:
		return c18Task{name: "DecodeViewBox" + suffix, run: func() string {
			vb, err := decode.DecodeViewBox(src)
			return fmt.Sprintf("err=%s %v", errText(err), vb)
		}}
	case 5:
		// a sub-slice of the shared table, spread into the variadic parameter:
		// anything from no option to all of them, the rest being spare capacity
		opts := p.opts[:t.Intn(len(p.opts)+1)]
		if t.Chance(1, 4) {
			opts = p.opts[1:]
		}
		return c18Task{name: "decode with the shared option values -> recorder" + suffix, run: func() string {
			rd := &world.RecDest{}
			err := decode.Decode(wrap(rd), src, opts...)
			return digestCalls(rd.Calls, err)
		}}
	case 6:
		prog := p.progs[t.Intn(len(p.progs))]
		return c18Task{name: "program(Generator helpers, path data)->Encoder" + suffix, run: func() string {
			var e encode.Encoder
			world.Run(world.Target{Dst: wrap(&e), Enc: &e}, prog)
			b, err := e.Bytes()
			return fmt.Sprintf("err=%s %d bytes %016x", errText(err), len(b), fnv(b))
		}}
	case 7:
		prog := p.progs[t.Intn(len(p.progs))]
		return c18Task{name: "program(Generator helpers, path data)->Renderer->recording rasteriser" + suffix, run: func() string {
			z := &world.RecRaster{}
			var r render.Renderer
			r.SetRasterizer(z, rect)
			world.Run(world.Target{Dst: wrap(&r)}, prog)
			return digestRast(z.Ops, nil)
		}}
	case 8:
		pal := p.pals[t.Intn(len(p.pals))]
		cregs := p.cregs
		seed := t.Intn(1 << 30)
		return c18Task{name: "colour helpers over a shared palette", run: func() string {
			h := uint64(seed)
			for i := 0; i < 96; i++ {
				x := byte(h>>7) ^ byte(i*37)
				c := ivg.DecodeColor1(x)
				r := c.Resolve(pal, cregs)
				b := ivg.BlendColor(byte(h>>3), x, byte(i)).Resolve(pal, cregs)
				h = fnvAdd(h, uint64(r.R)|uint64(r.G)<<8|uint64(r.B)<<16|uint64(r.A)<<24|uint64(b.R)<<32|uint64(b.A)<<40)
				rc := ivg.RGBAColor(r)
				e1, ok1 := rc.Encode1()
				e2, ok2 := rc.Encode2()
				e3, ok3 := rc.Encode3Direct()
				e4, _ := rc.Encode4()
				h = fnvAdd(h, uint64(e1)|uint64(e2[0])<<8|uint64(e3[1])<<16|uint64(e4[3])<<24)
				if ok1 != ivg.Is1(r) && r.A == 0xff {
					h = fnvAdd(h, 99)
				}
				if ok2 || ok3 || ivg.Is2(r) || ivg.Is3(r) || ivg.ValidAlphaPremulColor(r) || ivg.ValidGradient(r) {
					h = fnvAdd(h, 7)
				}
				h = fnvAdd(h, fnv([]byte(c.String())))
				gc := ivg.EncodeGradient(x&0x3f, byte(i)&0x3f, x>>7, (x>>5)&3, byte(h)&0x3f)
				cb, nb, sh, sp, ns := ivg.DecodeGradient(gc)
				h = fnvAdd(h, uint64(cb)|uint64(nb)<<8|uint64(sh)<<16|uint64(sp)<<24|uint64(ns)<<32)
				pr, pok := ivg.PaletteIndexColor(x).RGBA()
				cr := ivg.CRegColor(x).Resolve(pal, cregs)
				if pok {
					h = fnvAdd(h, uint64(pr.R))
				}
				h = fnvAdd(h, uint64(cr.G)|uint64(cr.A)<<8)
			}
			return fmt.Sprintf("digest %016x", h)
		}}
	case 10:
		// Generator with a transform stack over a shared path string
		d := world.GenPathData(t, true)
		sx, tx := float32(1+t.Intn(4)), float32(t.Range(-32, 32))
		hi := t.Bool()
		shareAffs, nAffs := t.Chance(1, 3), t.Intn(len(p.affs)+1)
		return c18Task{name: "copy of a template Generator: SetTransform + SetPathData -> Encoder", run: func() string {
			var e encode.Encoder
			e.Reset(ivg.DefaultViewBox, ivg.DefaultPalette)
			e.HighResolutionCoordinates = hi
			g := p.tmpl // a by-value copy of the shared, already configured template
			g.SetDestination(wrap(&e))
			if shareAffs {
				g.SetTransform(p.affs[:nAffs]...)
			} else {
				g.SetTransform(generate.Scale(sx), generate.Translate(tx, -tx))
			}
			err := g.SetPathData(d, 0)
			b, berr := e.Bytes()
			return fmt.Sprintf("err=%s bytes-err=%s %d bytes %016x", errText(err), errText(berr), len(b), fnv(b))
		}}
	case 11:
		// the Material Design converter's path front end, with its own adjs map
		d := world.GenPathData(t, false)
		op := float32(t.Intn(5)) / 4
		circles := []mdicons.Circle{{Cx: 24, Cy: 24, R: float32(1 + t.Intn(8))}}
		var shared *mdicons.Path
		if t.Bool() {
			shared = p.mdPaths[t.Intn(len(p.mdPaths))]
		}
		nilAdjs := t.Chance(1, 4)
		if t.Bool() {
			circles = p.mdCircles[:t.Intn(len(p.mdCircles)+1)] // the same parsed circles converted by several pipelines
		}
		return c18Task{name: "mdicons.ParsePath (opacity blend, circles) -> Encoder", run: func() string {
			var e encode.Encoder
			e.Reset(ivg.ViewBox{MinX: -24, MinY: -24, MaxX: 24, MaxY: 24}, ivg.DefaultPalette)
			adjs := map[float32]uint8{}
			if nilAdjs {
				adjs = nil // a caller without an opacity table (fine for opaque paths; the library panics on others, alone and interleaved alike)
			}
			path := &mdicons.Path{D: d, Opacity: &op}
			if shared != nil {
				path = shared // the same parsed path converted by several pipelines
			}
			err := mdicons.ParsePath(wrap(&e), path, adjs, 48, f32.Vec2{0, 0}, 48, circles)
			b, berr := e.Bytes()
			return fmt.Sprintf("err=%s bytes-err=%s %d bytes %016x adjs=%d", errText(err), errText(berr), len(b), fnv(b), len(adjs))
		}}
	case 12:
		return c18Task{name: "decode -> DestinationLogger without a destination" + suffix, run: func() string {
			err := decode.Decode(&ivg.DestinationLogger{Alt: true}, src)
			return "err=" + errText(err)
		}}
	case 13:
		return c18Task{name: "decode->Renderer->RasterizerLogger->recording rasteriser" + suffix, run: func() string {
			z := &world.RecRaster{}
			var r render.Renderer
			r.SetRasterizer(&raster.RasterizerLogger{Rasterizer: z}, rect)
			err := decode.Decode(&r, src)
			return digestRast(z.Ops, err)
		}}
	case 14:
		// one Encoder living through two uses: an earlier use that stops at a
		// drawn call (possibly after nothing but observers on the zero value),
		// then a whole program that begins with Reset
		first := p.firstUse[t.Intn(len(p.firstUse))]
		cut := t.Intn(len(first) + 1)
		if t.Bool() && cut > 3 {
			cut = t.Intn(4)
		}
		ask := t.Bool()
		prog := p.progs[t.Intn(len(p.progs))]
		return c18Task{name: fmt.Sprintf("Encoder through two uses (first stops after %d calls)", cut) + suffix, run: func() string {
			var e encode.Encoder
			tg := world.Target{Dst: wrap(&e), Enc: &e}
			world.Run(tg, first[:cut])
			var h1 uint64
			if ask {
				b, err := e.Bytes()
				h1 = fnvAdd(fnv(b), fnv([]byte(errText(err))))
			}
			world.Run(tg, prog)
			b, err := e.Bytes()
			return fmt.Sprintf("first use %016x; err=%s %d bytes %016x", h1, errText(err), len(b), fnv(b))
		}}
	case 15:
		// one Renderer decoding two shared files in a row
		src2 := p.files[t.Intn(len(p.files))]
		rect2 := c18Rects[t.Intn(len(c18Rects))]
		again := t.Bool()
		return c18Task{name: "Renderer reused for a second file" + suffix, run: func() string {
			z := &world.RecRaster{}
			var r render.Renderer
			r.SetRasterizer(z, rect)
			err1 := decode.Decode(wrap(&r), src)
			if again {
				r.SetRasterizer(z, rect2)
			}
			err2 := decode.Decode(wrap(&r), src2)
			return digestRast(z.Ops, err1) + " second err=" + errText(err2)
		}}
	case 16:
		// render.Gradient used directly over shared stops
		st := p.rstops[t.Intn(len(p.rstops))]
		shape, spread := render.Shape(t.Intn(2)), render.Spread(t.Intn(4))
		sc := float64(int(1)<<uint(t.Intn(4))) / 64
		aff := render.Aff3{sc, 0, float64(t.Range(-4, 4)) / 8, 0, sc, float64(t.Range(-4, 4)) / 8}
		return c18Task{name: "render.Gradient used directly over shared stops", run: func() string {
			var g render.Gradient
			ok := g.Init(shape, spread, aff, st)
			h := uint64(1)
			if ok {
				for y := -4; y < 40; y += 5 {
					for x := -4; x < 40; x += 3 {
						r, gg, b, a := g.At(x, y).RGBA()
						h = fnvAdd(h, uint64(r)|uint64(gg)<<16|uint64(b)<<32|uint64(a)<<48)
					}
				}
				rs := render.AppendRanges(nil, st)
				h = fnvAdd(h, uint64(len(rs)))
				for _, c := range g.StopColors() {
					h = fnvAdd(h, uint64(c.R)|uint64(c.G)<<8|uint64(c.B)<<16|uint64(c.A)<<24)
				}
			}
			return fmt.Sprintf("ok=%t digest %016x", ok, h)
		}}
	case 17:
		// one initialised render.Gradient shared as a read-only source image:
		// sampled directly (a colour is kept across the next lookup, as any
		// consumer of image.Image may do) and used as the fill of a real
		// rasteriser drawing into the task's own image
		x0, y0 := t.Intn(24), t.Intn(24)
		w, h := 4+t.Intn(20), 4+t.Intn(20)
		return c18Task{name: "shared render.Gradient as a read-only image source", run: func() string {
			g := p.grad
			hh := uint64(7)
			for y := y0; y < y0+6; y++ {
				prev := g.At(x0, y)
				for x := x0 + 1; x < x0+9; x++ {
					cur := g.At(x, y)
					r, gg, b, a := prev.RGBA()
					hh = fnvAdd(hh, uint64(r)|uint64(gg)<<16|uint64(b)<<32|uint64(a)<<48)
					prev = cur
				}
			}
			// what a getter returns belongs to the caller: a back end that uploads
			// the stops converts them in place (its own copies, by the getters'
			// contract)
			offs, cols := g.StopOffsets(), g.StopColors()
			for i := range offs {
				hh = fnvAdd(hh, math.Float64bits(offs[i]))
				offs[i] *= 255
			}
			for i := range cols {
				hh = fnvAdd(hh, uint64(cols[i].R)|uint64(cols[i].G)<<8|uint64(cols[i].B)<<16|uint64(cols[i].A)<<24)
				cols[i].A = 0xff
			}
			img := image.NewRGBA(image.Rect(0, 0, w, h))
			vz := vec.NewRasterizer(img)
			vz.Reset(w, h)
			vz.MoveTo(0, 0)
			vz.LineTo(float32(w), 0)
			vz.LineTo(float32(w)/2, float32(h))
			vz.ClosePath()
			vz.Draw(img.Bounds(), g, image.Point{X: x0, Y: y0})
			return fmt.Sprintf("samples %016x pixels %016x", hh, fnv(img.Pix))
		}}
	case 18:
		// the loader that owns the bytes right behind the arena-backed file:
		// it writes them (and only them) while others read the file
		if p.arena >= 0 && !p.loaderTaken {
			p.loaderTaken = true
			f := p.files[p.arena]
			tail := f[len(f):cap(f)]
			seed := t.Intn(256)
			return c18Task{name: fmt.Sprintf("loader writing the %d bytes right behind shared file#%d (its own part of the arena)", len(tail), p.arena), run: func() string {
				for round := 0; round < 3; round++ {
					for i := range tail {
						tail[i] = byte(seed + i*7 + round)
					}
				}
				return fmt.Sprintf("wrote %d bytes", len(tail))
			}}
		}
		return c18Task{name: "DecodeViewBox" + suffix, run: func() string {
			vb, err := decode.DecodeViewBox(src)
			return fmt.Sprintf("err=%s %v", errText(err), vb)
		}}
	case 19:
		// a long-lived Renderer that borrows a rasteriser from the shared pool
		// for each decode and hands it back before it is given the next one;
		// the first decode is often cut short inside the file (an abandoned
		// download), so that the Renderer is left in the middle of a path
		cut := len(src)
		if t.Chance(2, 3) && len(src) > 30 {
			cut = 24 + t.Intn(len(src)-24)
		}
		src2 := p.files[t.Intn(len(p.files))]
		rect2 := c18Rects[t.Intn(len(c18Rects))]
		rz := p.rz
		return c18Task{name: "long-lived Renderer borrowing pooled rasterisers" + suffix + fmt.Sprintf(" (first decode reads %d of %d bytes)", cut, len(src)), run: func() string {
			var r render.Renderer
			who := "the Renderer of a pipeline"
			l1 := rz.take(who)
			defer l1.giveBack()
			r.SetRasterizer(l1, rect)
			err1 := decode.Decode(wrap(&r), src[:cut])
			d1 := digestRast(l1.giveBack(), err1)
			l2 := rz.take(who)
			defer l2.giveBack()
			r.SetRasterizer(l2, rect2)
			err2 := decode.Decode(wrap(&r), src2)
			return d1 + " then " + digestRast(l2.giveBack(), err2)
		}}
	default:
		vbs := []ivg.ViewBox{ivg.DefaultViewBox, {MinX: 0, MinY: 0, MaxX: 48, MaxY: 24}}
		vb := vbs[t.Intn(2)]
		return c18Task{name: "viewBox helpers", run: func() string {
			h := uint64(1)
			for i := 1; i < 20; i++ {
				a, b, c, d := vb.AspectMeet(float32(10*i), 64, ivg.Mid, ivg.Max)
				e, f, g, k := vb.AspectSlice(float32(10*i), 64, ivg.Min, ivg.Mid)
				dx, dy := vb.Size()
				for _, x := range []float32{a, b, c, d, e, f, g, k, dx, dy} {
					h = fnvAdd(h, uint64(float32bits(x)))
				}
			}
			return fmt.Sprintf("digest %016x", h)
		}}
	}
}

// ---------------------------------------------------------------------------

var c18Once sync.Once

// raceLogSize returns the size of this process's race-detector log (the
// parent sets GORACE=log_path=<prefix>, the runtime appends .<pid>).
func raceLogPath() string {
	if p := os.Getenv("IVGSIM_RACE_LOG"); p != "" {
		return fmt.Sprintf("%s.%d", p, os.Getpid())
	}
	return ""
}

func raceLogSize() int64 {
	if p := raceLogPath(); p != "" {
		if fi, err := os.Stat(p); err == nil {
			return fi.Size()
		}
	}
	return 0
}

// raceReport extracts the first report written after offset from.
func raceReport(from int64) (summary string, lines []string) {
	p := raceLogPath()
	b, err := os.ReadFile(p)
	if err != nil || int64(len(b)) <= from {
		return "", nil
	}
	text := string(b[from:])
	if i := strings.Index(text, "WARNING: DATA RACE"); i >= 0 {
		text = text[i:]
	}
	if i := strings.Index(text, "=================="); i >= 0 {
		text = text[:i]
	}
	var tops []string
	all := strings.Split(text, "\n")
	for i, l := range all {
		l = strings.TrimSpace(l)
		if l == "" {
			continue
		}
		if len(lines) < 28 {
			lines = append(lines, l)
		}
		if (strings.HasPrefix(l, "Read at") || strings.HasPrefix(l, "Write at") || strings.HasPrefix(l, "Previous")) && i+1 < len(all) {
			what := strings.Fields(l)
			kind := what[0]
			if kind == "Previous" && len(what) > 1 {
				kind = "previous " + what[1]
			}
			fn := strings.TrimSpace(all[i+1])
			// skip runtime-internal frames (memmove etc.) to the first library/harness frame
			for j := i + 1; j < len(all) && j < i+12; j += 2 {
				f := strings.TrimSpace(all[j])
				if f == "" {
					break
				}
				if !strings.HasPrefix(f, "runtime.") {
					fn = f
					break
				}
			}
			tops = append(tops, strings.ToLower(kind)+" in "+fn)
		}
	}
	return strings.Join(tops, " / "), lines
}

// c18RunRace is the race arm: the same tasks over the same shared inputs,
// scheduled by the same tape-driven deciders, but with the baton handed over
// invisibly (sched.RunInvisible) in a binary built with -race. The scheduled
// phase comes first in the case — before any solo run could complete a
// one-time initialisation or warm a shared option value.
func c18RunRace(ctx *Ctx, t *tape.Tape) *report.Violation {
	if !raceEnabled || c18Install == nil {
		return &report.Violation{Property: "C18", Invariant: "C18.not-race-build", Message: "this case belongs to the race arm and needs the binary built with -race against the instrumented copy"}
	}
	c18Once.Do(func() {
		runtime.GOMAXPROCS(1)
		debug.SetGCPercent(-1)
	})
	runtime.GC()
	runtime.GC()
	st := ctx.Stats
	pool := c18BuildPool(ctx, t)
	k := t.Range(2, 5)
	tasks := make([]c18Task, k)
	for i := range tasks {
		tasks[i] = c18MakeTask(t, pool)
	}
	var dec sched.Decider
	policy := ""
	// the step counts are not known before the first run: change points are
	// drawn over a nominal 6000 steps per task
	total := 6000 * k
	if t.Chance(1, 2) {
		d := t.Range(0, 8)
		pct := &sched.PCT{Prio: make([]int, k)}
		pts := make([]int, d)
		for i := range pts {
			pts[i] = 1 + t.Intn(total+1)
		}
		sort.Ints(pts)
		pct.Points = pts
		for i := 0; i < d; i++ {
			pct.Targets = append(pct.Targets, t.Intn(k))
		}
		for i := range pct.Prio {
			pct.Prio[i] = i
		}
		for i := k - 1; i > 0; i-- {
			j := t.Intn(i + 1)
			pct.Prio[i], pct.Prio[j] = pct.Prio[j], pct.Prio[i]
		}
		pct.Reset()
		dec, policy = pct, fmt.Sprintf("PCT: change points at steps %v -> tasks %v", pts, pct.Targets)
	} else {
		den := []int{50, 300, 2000}[t.Intn(3)]
		r := t.Sub()
		dec, policy = &sched.Chaos{Den: den, Rand: r.Next}, fmt.Sprintf("chaos: preempt with probability 1/%d at every statement", den)
	}
	results := make([]string, k)
	fns := make([]func(), k)
	for i := range tasks {
		i := i
		fns[i] = func() { results[i] = tasks[i].run() }
	}
	before := raceLogSize()
	ctx.Beat()
	stt := sched.RunInvisible(fns, dec, c18Install, 4000000)
	ctx.Beat()
	ctx.Fold(fnvAdd(stt.Hash, uint64(stt.Steps)))
	strays := pool.rz.quiesce()
	if raceLogSize() > before {
		summary, lines := raceReport(before)
		v := viol("C18", "data-race", "the race detector, watching a tape-scheduled interleaving in which it cannot see the hand-overs, reports conflicting unsynchronised accesses by two pipelines: %s", summary)
		for i, f := range pool.fileDesc {
			v.Trace = append(v.Trace, fmt.Sprintf("shared file#%d (%d bytes): %s", i, len(pool.files[i]), f))
		}
		v.Trace = append(v.Trace, pool.optsDesc)
		for i, tk := range tasks {
			v.Trace = append(v.Trace, fmt.Sprintf("task %d: %s", i, tk.name))
		}
		v.Trace = append(v.Trace, "policy: "+policy, fmt.Sprintf("%d statement steps, %d preemptions", stt.Steps, len(stt.Switches)))
		v.Trace = append(v.Trace, lines...)
		v.Signature = v.Invariant
		return v
	}
	if len(strays) > 0 {
		v := viol("C18", "foreign-call", "%d call(s) reached a pooled rasteriser through a pipeline that had handed it back (an object that by then belongs to another pipeline): %s", len(strays), strays[0])
		for i, tk := range tasks {
			v.Trace = append(v.Trace, fmt.Sprintf("task %d: %s", i, tk.name))
		}
		v.Signature = v.Invariant
		return v
	}
	if st != nil {
		st.Add("evaluations", 1)
		st.Add("race_arm_runs", 1)
		st.Add("race_arm_statement_steps", int64(stt.Steps))
		st.Add("race_arm_preemptions", int64(len(stt.Switches)))
		if stt.Overlaps > 0 {
			st.Distinct(fnvAdd(stt.Hash, 99))
		}
	}
	return nil
}

func c18Run(ctx *Ctx, t *tape.Tape) *report.Violation {
	if t.Intn(2) == 1 {
		return c18RunRace(ctx, t)
	}
	if c18Install == nil {
		return &report.Violation{Property: "C18", Invariant: "C18.not-instrumented", Message: "this binary was not built against the instrumented copy"}
	}
	c18LoadGlobals()
	// Determinism of what the library may pull from the runtime: one P, no
	// background GC during a case, and two collections at the start of every
	// case so that sync.Pool caches (primary and victim) start empty. Without
	// this a pooled object handed out by the runtime depends on GC timing and
	// on which P a goroutine last ran on, and a violation would not replay.
	c18Once.Do(func() {
		runtime.GOMAXPROCS(1)
		debug.SetGCPercent(-1)
	})
	runtime.GC()
	runtime.GC()
	st := ctx.Stats
	pool := c18BuildPool(ctx, t)
	k := t.Range(2, 6)
	tasks := make([]c18Task, k)
	for i := range tasks {
		tasks[i] = c18MakeTask(t, pool)
	}
	describe := func() []string {
		var out []string
		for i, f := range pool.fileDesc {
			out = append(out, fmt.Sprintf("shared file#%d (%d bytes): %s", i, len(pool.files[i]), f))
		}
		out = append(out, pool.optsDesc)
		for i, tk := range tasks {
			out = append(out, fmt.Sprintf("task %d: %s", i, tk.name))
		}
		return out
	}
	fail := func(v *report.Violation, extra ...string) *report.Violation {
		v.Trace = append(describe(), extra...)
		v.Signature = v.Invariant
		return v
	}

	// snapshots of everything shared
	poolHash := pool.hash()
	shallow := make([][]byte, len(c18GlobalList))
	deep := make([]uint64, len(c18GlobalList))
	for i, g := range c18GlobalList {
		if g.shallow {
			shallow[i] = append([]byte(nil), world.ShallowBytes(g.ptr)...)
		}
		deep[i] = world.DeepHash(g.ptr)
	}
	checkShallow := func() string {
		for i, g := range c18GlobalList {
			if g.shallow && !bytes.Equal(shallow[i], world.ShallowBytes(g.ptr)) {
				return g.name
			}
		}
		return ""
	}
	checkDeep := func() string {
		for i, g := range c18GlobalList {
			if world.DeepHash(g.ptr) != deep[i] {
				return g.name
			}
		}
		return ""
	}

	// solo runs (twice): the reference results, and the step counts the PCT
	// change points are drawn over. The hook only counts.
	solo := make([]string, k)
	soloSteps := make([]int, k)
	var soloPrinted []string
	for i := range tasks {
		for rep := 0; rep < 2; rep++ {
			steps := 0
			c18Install(func(int) { steps++ })
			var res string
			var p bool
			var msg string
			printed := c18Capture(func() { p, _, msg = guard(func() { res = tasks[i].run() }) })
			c18Install(nil)
			if p {
				res = "panic: " + msg
			}
			if rep == 0 {
				soloPrinted = append(soloPrinted, printed)
				solo[i], soloSteps[i] = res, steps
			} else if res != solo[i] {
				return fail(viol("C18", "result", "task %d (%s) run alone twice gives different results: %s vs %s", i, tasks[i].name, solo[i], res))
			}
			ctx.Beat()
			if strays := pool.rz.quiesce(); len(strays) > 0 {
				return fail(viol("C18", "foreign-call", "task %d (%s), running alone, made %d call(s) to a rasteriser it had handed back to the shared pool (an object that by then belongs to another pipeline): %s", i, tasks[i].name, len(strays), strays[0]))
			}
			if name := checkShallow(); name != "" {
				return fail(viol("C18", "global-written", "package-level variable %s was written by task %d (%s) running alone", name, i, tasks[i].name))
			}
			if pool.hash() != poolHash {
				return fail(viol("C18", "input-written", "a shared input (source bytes, palette, stops) was written by task %d (%s) running alone", i, tasks[i].name))
			}
		}
	}
	if name := checkDeep(); name != "" {
		return fail(viol("C18", "global-written", "package-level variable %s (or data it points to) was written during the solo runs", name))
	}
	// results the tasks still hold must not have changed under them
	stillHolds := func(res []string, when string) *report.Violation {
		for i := range tasks {
			if tasks[i].kept == nil || strings.HasPrefix(res[i], "panic:") {
				continue
			}
			if h := fmt.Sprintf("%016x", fnv(*tasks[i].kept)); !strings.HasSuffix(res[i], h) {
				return viol("C18", "result", "the bytes task %d (%s) was given and still holds changed after it got them (%s): they now hash to %s, it received %s", i, tasks[i].name, when, h, res[i])
			}
		}
		return nil
	}
	if v := stillHolds(solo, "while the other tasks ran alone, one after the other"); v != nil {
		return fail(v)
	}
	total := 0
	for _, s := range soloSteps {
		total += s
	}

	// the schedule
	var dec sched.Decider
	policy := ""
	if t.Chance(2, 3) {
		d := t.Range(0, 8)
		pct := &sched.PCT{Prio: make([]int, k)}
		pts := make([]int, d)
		for i := range pts {
			pts[i] = 1 + t.Intn(total+1)
		}
		sort.Ints(pts)
		pct.Points = pts
		for i := 0; i < d; i++ {
			pct.Targets = append(pct.Targets, t.Intn(k))
		}
		perm := make([]int, k)
		for i := range perm {
			perm[i] = i
		}
		for i := k - 1; i > 0; i-- {
			j := t.Intn(i + 1)
			perm[i], perm[j] = perm[j], perm[i]
		}
		copy(pct.Prio, perm)
		pct.Reset()
		dec, policy = pct, fmt.Sprintf("PCT: %d change points at steps %v -> tasks %v, priorities %v", d, pts, pct.Targets, perm)
	} else {
		den := []int{50, 300, 2000}[t.Intn(3)]
		r := t.Sub()
		dec, policy = &sched.Chaos{Den: den, Rand: r.Next}, fmt.Sprintf("chaos: preempt with probability 1/%d at every statement", den)
	}

	results := make([]string, k)
	fns := make([]func(), k)
	for i := range tasks {
		i := i
		fns[i] = func() { results[i] = tasks[i].run() }
	}
	slices := 0
	var ranSince []int
	var detail string
	after := func(task int, finished bool) error {
		slices++
		ranSince = append(ranSince, task)
		ctx.Beat()
		if slices > 64 && slices%16 != 0 && !finished {
			return nil // thinned: every 16th slice after the first 64, and always at a task's end
		}
		if name := checkShallow(); name != "" {
			detail = fmt.Sprintf("package-level variable %s was written; tasks that ran since the last check: %v (slice %d)", name, ranSince, slices)
			return fmt.Errorf("global-written")
		}
		if pool.hash() != poolHash {
			detail = fmt.Sprintf("a shared input (source bytes, palette, stops) was written; tasks that ran since the last check: %v (slice %d)", ranSince, slices)
			return fmt.Errorf("input-written")
		}
		ranSince = ranSince[:0]
		return nil
	}
	var stt sched.Stats
	var err error
	schedPrinted := c18Capture(func() { stt, err = sched.Run(fns, dec, c18Install, after, 50*total+100000) })
	schedTrace := []string{"policy: " + policy, fmt.Sprintf("%d statement steps, %d slices, %d preemptions", stt.Steps, stt.Slices, len(stt.Switches))}
	for i, sw := range stt.Switches {
		if i >= 24 {
			schedTrace = append(schedTrace, fmt.Sprintf("… %d more preemptions …", len(stt.Switches)-i))
			break
		}
		schedTrace = append(schedTrace, fmt.Sprintf("preempt at step %d: task %d at %s", sw.Step, sw.From, siteName(sw.Site)))
	}
	if err != nil {
		return fail(viol("C18", err.Error(), "%s", detail), schedTrace...)
	}
	if strays := pool.rz.quiesce(); len(strays) > 0 {
		return fail(viol("C18", "foreign-call", "%d call(s) reached a pooled rasteriser through a pipeline that had handed it back (an object that by then belongs to another pipeline): %s", len(strays), strays[0]), schedTrace...)
	}
	if name := checkDeep(); name != "" {
		return fail(viol("C18", "global-written", "package-level variable %s (or data it points to) was written during the scheduled run", name), schedTrace...)
	}
	for _, m := range stt.Panics {
		if strings.Contains(m, sched.ErrRunaway.Error()) {
			return fail(viol("C18", "result", "the scheduled run did not finish within 50x the solo step count (%s)", m), schedTrace...)
		}
	}
	if v := stillHolds(results, "under this interleaving"); v != nil {
		return fail(v, schedTrace...)
	}
	for i := range tasks {
		if results[i] == "" && stt.Panics[i] != "" {
			results[i] = "panic: " + stt.Panics[i]
		}
		if results[i] != solo[i] {
			return fail(viol("C18", "result", "task %d (%s) produced a different result under this interleaving than alone: %s vs %s", i, tasks[i].name, results[i], solo[i]), schedTrace...)
		}
	}
	// the lines printed under the interleaving are the lines printed alone (in
	// any order: whole lines of different pipelines may interleave)
	if a, b := sortedLines(soloPrinted...), sortedLines(schedPrinted); len(a)+len(b) > 0 {
		if st != nil {
			st.Add("cases_with_printed_output_compared", 1)
		}
		diffAt := -1
		for i := 0; i < len(a) || i < len(b); i++ {
			if i >= len(a) || i >= len(b) || a[i] != b[i] {
				diffAt = i
				break
			}
		}
		if diffAt >= 0 {
			x, y := "<nothing>", "<nothing>"
			if diffAt < len(a) {
				x = a[diffAt]
			}
			if diffAt < len(b) {
				y = b[diffAt]
			}
			return fail(viol("C18", "result", "what the pipelines printed under this interleaving is not what they print alone (%d vs %d lines; first difference in sorted order: alone %q, interleaved %q): a record was torn or lost", len(a), len(b), x, y), schedTrace...)
		}
	}
	ctx.Fold(fnvAdd(stt.Hash, uint64(stt.Steps)))
	if st != nil {
		for i := range tasks {
			name := tasks[i].name
			if j := strings.Index(name, " file#"); j >= 0 {
				name = name[:j]
			}
			if j := strings.Index(name, " (first "); j >= 0 {
				name = name[:j]
			}
			if j := strings.Index(name, "vec.Rasterizer"); j >= 0 {
				name = name[:j+len("vec.Rasterizer")]
			}
			st.Add("taskkind_"+name, 1)
			if strings.HasPrefix(solo[i], "panic:") {
				st.Add("taskpanic_"+name, 1)
			}
		}
		st.Add("evaluations", 1)
		st.Add("statement_steps", int64(stt.Steps))
		st.Add("preemptions", int64(len(stt.Switches)))
		st.Add("slices", int64(stt.Slices))
		st.Add("tasks", int64(k))
		if strings.HasPrefix(policy, "PCT") {
			st.Add("policy_pct", 1)
		} else {
			st.Add("policy_chaos", 1)
		}
		if stt.Steps == 0 {
			// fallback build without statement yields: tasks ran atomically; what
			// is distinct is the task set over the shared inputs
			st.Distinct(fnv([]byte(strings.Join(describe(), "|"))))
		}
		if stt.Foreign > 0 {
			st.Add("preemption_points_reached_on_goroutines_the_library_started_itself_(never parked)", int64(stt.Foreign))
		}
		if stt.Overlaps > 0 {
			st.Distinct(stt.Hash)
			st.Add("probe_preemption_with_two_tasks_inside_library", int64(stt.Overlaps))
		}
		for _, sw := range stt.Switches {
			n := siteName(sw.Site)
			switch {
			case strings.HasPrefix(n, "decode/"):
				st.Add("preempt_in_decode", 1)
			case strings.HasPrefix(n, "encode/"):
				st.Add("preempt_in_encode", 1)
			case strings.HasPrefix(n, "render/"):
				st.Add("preempt_in_render", 1)
			case strings.HasPrefix(n, "raster/"):
				st.Add("preempt_in_raster_and_raster_vec", 1)
			case strings.HasPrefix(n, "generate/") || strings.HasPrefix(n, "mdicons/"):
				st.Add("preempt_in_generate_mdicons", 1)
			default:
				st.Add("preempt_in_ivg_root", 1)
			}
			if strings.Contains(n, ".SetNReg") || strings.Contains(n, ".SetCReg") {
				st.Add("probe_preemption_inside_register_write", 1)
			}
		}
		if st.WantSample(4) && len(stt.Switches) > 0 && len(stt.Switches) < 12 {
			st.Sample(4, map[string]interface{}{"tasks_and_shared_inputs": describe(), "schedule": schedTrace})
		}
	}
	return nil
}

// c18Counts: cases of the normal arm and of the race arm.
func c18Counts(tier string) (normal, race int) {
	if tier == "thorough" {
		return 4000000, 200000
	}
	return 120000, 12000
}

func init() {
	register(&Property{
		ID:                 "C18",
		Level:              "exploration",
		NeedsCorpus:        true,
		NeedsSched:         true,
		FreshProcessReplay: true,
		Cases: func(ctx *Ctx) int {
			a, b := c18Counts(ctx.Tier)
			return a + b
		},
		RaceFrom: func(ctx *Ctx) int {
			a, _ := c18Counts(ctx.Tier)
			return a
		},
		Prefix: func(ctx *Ctx, i int) []uint64 {
			if a, _ := c18Counts(ctx.Tier); i >= a {
				return []uint64{1}
			}
			return []uint64{0}
		},
		Run: c18Run,
		Describe: func(tier string, s *report.Stats, cases int) Evidence {
			sites, skipped := 0, []string{}
			if c18Sites != nil {
				sites = len(c18Sites())
			}
			if c18Skipped != nil {
				skipped = c18Skipped()
			}
			c18LoadGlobals()
			names := []string{}
			for _, g := range c18GlobalList {
				names = append(names, g.name)
			}
			return Evidence{
				Rule: "A case is a set of 2-6 independent pipelines (decode->Renderer->recording rasteriser or real vec.Rasterizer, decode->Encoder->Bytes, Disassemble, DecodeViewBox, decode with WithPalette/WithColorAt, generated programs with Generator helpers and path-data front ends -> Encoder or Renderer, colour and viewBox helpers; some behind DestinationLogger; some reading faulted files that end in an error) over a pool of 2-4 shared inputs (the same backing arrays: source bytes, palettes, gradient stops) and the package defaults, plus a schedule. The library under test is a scratch copy with a yield inserted before every statement; exactly one task runs at a time and the tape decides every preemption and every choice of next task (PCT-style: 0-8 change points over the measured step count, or chaos: preempt with probability 1/50, 1/300 or 1/2000 per statement). Oracles: every task's result equals its result when run alone (solo runs are made twice and must agree); the direct bytes of every package-level variable and the hash of every shared input are compared after every scheduling slice (every 16th after the first 64), a deep reflective hash of every package-level variable before and after. distinct_nontrivial = hash-bitmap count of distinct (task, site) preemption sequences with at least one preemption that landed while two or more tasks were inside library code.",
				Extra: map[string]interface{}{
					"fault_kinds_fired": "schedule faults only: preemptions (below); some tasks read storage-faulted files",
					"statement_steps":   s.Counters["statement_steps"],
					"preemptions":       s.Counters["preemptions"],
					"scheduling_slices": s.Counters["slices"],
					"tasks_run":         s.Counters["tasks"],
					"task_kinds":        s.SortedCounters("taskkind_"),
					"tasks_whose_solo_run_panicked_(harness health; the panic must then repeat under every schedule)": s.SortedCounters("taskpanic_"),
					"policies": map[string]int64{"pct": s.Counters["policy_pct"], "chaos": s.Counters["policy_chaos"]},
					"cases in which printed output (loggers) was compared line by line with the solo runs": s.Counters["cases_with_printed_output_compared"],
					"preemptions_by_package": s.SortedCounters("preempt_in_"),
					"preemption points reached on goroutines the library started itself (never parked; 0 = the library starts none)": s.Counters["preemption_points_reached_on_goroutines_the_library_started_itself_(never parked)"],
					"yield_sites_in_the_copy":         sites,
					"instrumentation_mode":            os.Getenv("IVGSIM_INSTRUMENTATION"),
					"files_left_uninstrumented":       skipped,
					"package_level_variables_watched": names,
					"reach_probes": map[string]int64{
						"preemptions with >=2 tasks inside library code": s.Counters["probe_preemption_with_two_tasks_inside_library"],
						"preemptions inside SetCReg/SetNReg":             s.Counters["probe_preemption_inside_register_write"],
					},
					"simulated_time": "none; the unit is one Go statement of the library",
					"components": map[string]string{
						"real": "the whole library (ivg, decode, encode, render, generate, mdicons, raster/vec) in an instrumented scratch copy: same statements, a yield call before each; golang.org/x/image/vector runs uninstrumented (atomic between yields)",
						"stub": "baton scheduler, PCT/chaos deciders, task and shared-input generator, recording Destination/Rasterizer, reflective global-variable hasher",
					},
				},
				Assumptions: []string{
					"preemption granularity is the Go statement, not the memory access; a racy write that stores the value already there is invisible",
					"the instrumented copy preserves semantics (checked by `./check selftest instrumentation`: it builds and passes the repository's own tests)",
					"the Go race detector is not the deciding step: under one-at-a-time scheduling every hand-off is a happens-before edge, and under real threads its reports do not replay",
				},
			}
		},
	})
}
