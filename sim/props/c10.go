package props

import (
	"bytes"
	"fmt"
	"image/color"
	"math"

	"github.com/reactivego/ivg"
	"github.com/reactivego/ivg/decode"
	"github.com/reactivego/ivg/encode"

	"verif/sim/model"
	"verif/sim/report"
	"verif/sim/tape"
	"verif/sim/world"
)

// C10 — the Encoder accepts exactly protocol-respecting histories; errors are
// sticky. The environment is the producer on the Destination seam (S2): it
// calls out of protocol at any point (the injected faults), restarts the
// object with Reset at any point, and probes it with Bytes/CSel/NSel/LOD at
// any point. The oracle is the 4-state reference automaton of package model,
// stepped in lockstep with the real Encoder and compared after every call.

const (
	c10Enum      = iota // one legal history H; every position x every fault class; Reset at later positions + legal tail
	c10Random           // seeded history over the whole alphabet, legality not respected
	c10Long             // long legal histories (runs of hundreds of identical drawing calls), decode oracle only
	c10Exhaust          // every history up to a depth bound over an abstract alphabet of 16 representative calls
	c10AdjSweep         // every adjustment value 0..255 on every call that takes one, in every protocol state
	c10MetaSweep        // every suggested-palette layout (4 formats x 1..64 explicit colours) and every combination of number forms of the viewBox bounds
)

// c10Alphabet is the abstract alphabet of the exhaustive mode: one or two
// concrete representatives per call class of the property's quantifier
// (reset, selector read, styling ok / bad-adj / bad-incr, start-path ok / bad,
// draw, close-move, end-path, bytes).
func c10Alphabet() []world.Op {
	pal := ivg.DefaultPalette
	pal[0] = color.RGBA{0x80, 0, 0, 0x80}
	return []world.Op{
		{K: world.KReset, VB: ivg.DefaultViewBox},
		{K: world.KReset, VB: ivg.ViewBox{MinX: 0, MinY: 0, MaxX: 48, MaxY: 24}, Pal: &pal},
		{K: world.KCSel},
		{K: world.KBytes},
		{K: world.KLOD},
		{K: world.KSetCSel, U: 70},
		{K: world.KSetCReg, U: 2, C: ivg.RGBAColor(color.RGBA{0x40, 0x40, 0x40, 0x40})},
		{K: world.KSetNReg, Incr: true, F: [6]float32{0.25}},
		{K: world.KSetLOD, F: [6]float32{8, 64}},
		{K: world.KSetCReg, U: 7, C: ivg.PaletteIndexColor(1)},  // bad adj
		{K: world.KSetNReg, U: 3, Incr: true, F: [6]float32{1}}, // bad incr
		{K: world.KStartPath, U: 1, F: [6]float32{-8, 2.5}},     // ok
		{K: world.KStartPath, U: 9, F: [6]float32{1, 1}},        // bad adj
		{K: world.KAbsLineTo, F: [6]float32{3, -4}},             // draw
		{K: world.KClosePathRelMoveTo, F: [6]float32{1.5, 1}},   // close-move
		{K: world.KClosePathEndPath},                            // end-path
	}
}

const c10ExhaustBlock = 4096 // histories per case

func classOf(o *world.Op) (model.Class, uint8, bool) {
	switch {
	case o.K == world.KReset:
		return model.ClsReset, 0, false
	case o.K == world.KSetCSel || o.K == world.KSetNSel || o.K == world.KSetLOD:
		return model.ClsSelector, 0, false
	case o.K == world.KSetCReg || o.K == world.KSetNReg:
		return model.ClsRegister, o.U, o.Incr
	case o.K == world.KStartPath:
		return model.ClsStartPath, o.U, false
	case o.K == world.KClosePathEndPath:
		return model.ClsEndPath, 0, false
	case o.K.IsDraw():
		return model.ClsDraw, 0, false
	}
	return model.ClsObserve, 0, false
}

// expectedCall is what the decoder must deliver for a call the Encoder
// accepted: selectors arrive masked to 6 bits, an incrementing write arrives
// with adj 0, everything else unchanged.
func expectedCall(o world.Op) world.Op {
	switch o.K {
	case world.KSetCSel, world.KSetNSel:
		o.U &= 63
	}
	return o
}

type c10Result struct {
	final    []byte
	finalErr error
	errAt    []bool      // error status after each call
	obsAt    [][4]uint32 // CSel, NSel, LOD bits after each call
	panicked bool        // the code under test panicked: nothing is concluded from this history
}

// driveEncoder runs hist on e (already prepared by the caller) and checks
// the automaton invariants after every call when probe is set.
// offHi returns the per-call resolution flags (with a leading entry for
// Reset) when the history carries off-lattice numbers, nil otherwise (then
// the decoded history must be bit-exact).
func offHi(off bool, sinceHi []bool) []bool {
	if !off {
		return nil
	}
	return append([]bool{false}, sinceHi...)
}

func driveEncoder(ctx *Ctx, e *encode.Encoder, hist []world.Op, probe bool, deepDecode bool, off bool) (res c10Result, v *report.Violation) {
	m := &model.EncoderModel{}
	tgt := world.Target{Dst: e, Enc: e}
	var firstErr error
	resetVB, resetPal := ivg.DefaultViewBox, ivg.DefaultPalette
	var since []world.Op // calls since the last Reset that must arrive at the far end
	var sinceHi []bool   // parallel: was the call made inside a path started in high-resolution mode
	pathHi := false
	for i := range hist {
		o := &hist[i]
		ctx.Beat()
		if p, _, msg := guard(func() { world.Apply(tgt, o) }); p {
			// not C10's business (C02 reports panics): the history is set aside
			_ = msg
			if ctx.Stats != nil {
				ctx.Stats.Add("histories_set_aside_because_the_code_panicked", 1)
			}
			res.panicked = true
			return res, nil
		}
		c, adj, incr := classOf(o)
		m.Step(c, adj, incr)
		if c == model.ClsReset {
			resetVB = o.VB
			resetPal = ivg.DefaultPalette
			if o.Pal != nil {
				resetPal = *o.Pal
			}
			since, sinceHi = since[:0], sinceHi[:0]
			firstErr = nil
		} else if c != model.ClsObserve && m.State != model.EncError {
			if o.K == world.KStartPath {
				pathHi = e.HighResolutionCoordinates
			}
			since = append(since, expectedCall(*o))
			sinceHi = append(sinceHi, pathHi)
		}
		if !probe {
			continue
		}
		b, err := e.Bytes()
		res.errAt = append(res.errAt, err != nil)
		l0, l1 := e.LOD()
		res.obsAt = append(res.obsAt, [4]uint32{uint32(e.CSel()), uint32(e.NSel()), float32bits(l0), float32bits(l1)})
		if (err != nil) != (m.State == model.EncError) {
			return res, viol("C10", "accept", "after call #%d %s the automaton is in %s but Bytes returned err=%v", i, o.String(), m.State, err)
		}
		if err != nil {
			if _, ok := err.(encode.EncodeError); !ok {
				return res, viol("C10", "sticky", "after call #%d Bytes returned %T (%v), not an encode.EncodeError", i, err, err)
			}
			if firstErr == nil {
				firstErr = err
			} else if err != firstErr {
				return res, viol("C10", "sticky", "after call #%d %s the reported error changed from %q to %q", i, o.String(), firstErr, err)
			}
		}
		if deepDecode && m.State == model.EncStyling {
			if v := c10Decodes(ctx, b, resetVB, resetPal, since, offHi(off, sinceHi), i); v != nil {
				return res, v
			}
		}
	}
	b, err := e.Bytes()
	res.final, res.finalErr = append([]byte(nil), b...), err
	if (err != nil) != (m.State == model.EncError) {
		return res, viol("C10", "accept", "at the end the automaton is in %s but Bytes returned err=%v", m.State, err)
	}
	if m.State == model.EncStyling || m.State == model.EncInitial {
		if v := c10Decodes(ctx, b, resetVB, resetPal, since, offHi(off, sinceHi), len(hist)-1); v != nil {
			return res, v
		}
		if ctx.Stats != nil {
			ctx.Stats.Add("decoded_and_compared", 1)
		}
	}
	if ctx.Stats != nil {
		ctx.Stats.Add("histories_driven", 1)
		ctx.Stats.Add("calls_driven", int64(len(hist)))
		ctx.Stats.Add("end_state_"+m.State.String(), 1)
		if m.Faults > 0 {
			ctx.Stats.Add("histories_with_fault", 1)
		}
	}
	return res, nil
}

// c10Decodes: a violation-free history with all paths ended yields a stream
// the decoder accepts and that decodes to that history.
// withinQuantisation compares the expected history with the decoded one for
// histories whose numbers are off the lattice. Structure must be identical;
// a low-resolution coordinate in [-128,128) may move by one 1/64 quantum
// (nearest 1/64, ties and float rounding included), every other number by a
// relative 2^-20 (the 4-byte form drops two mantissa bits), an angle
// likewise modulo one turn. hi[i] says whether expected call i was made in
// a path started in high-resolution mode (hi[0] belongs to Reset).
func withinQuantisation(want, got []world.Op, hi []bool) string {
	if len(want) != len(got) {
		return fmt.Sprintf("%d calls made since Reset, %d decoded", len(want)-1, len(got)-1)
	}
	rel := func(a, b float64) bool {
		// relative 2^-20, with an absolute floor below the smallest normal
		// float32: the 4-byte form also drops two mantissa bits of a denormal
		// (0x80000001 decodes as -0), which is quantisation too
		return a == b || math.Abs(a-b) <= math.Max(math.Abs(a), math.Abs(b))/(1<<20)+1e-37 || (math.IsNaN(a) && math.IsNaN(b))
	}
	for i := range want {
		w, g := want[i], got[i]
		if world.SameCall(&w, &g) {
			continue
		}
		w2, g2 := w, g
		w2.F, g2.F = [6]float32{}, [6]float32{}
		if w.K == world.KReset && g.K == world.KReset {
			// the viewBox is never quantised to 1/64: off the lattice it travels in
			// the 4-byte form
			if !rel(float64(w.VB.MinX), float64(g.VB.MinX)) || !rel(float64(w.VB.MinY), float64(g.VB.MinY)) ||
				!rel(float64(w.VB.MaxX), float64(g.VB.MaxX)) || !rel(float64(w.VB.MaxY), float64(g.VB.MaxY)) {
				return fmt.Sprintf("call #%d: viewBox %v decoded as %v (beyond the rounding of the 4-byte number form)", i, w.VB, g.VB)
			}
			w2.VB, g2.VB = ivg.ViewBox{}, ivg.ViewBox{}
		}
		if !world.SameCall(&w2, &g2) {
			return fmt.Sprintf("call #%d was %s, decoded as %s", i, w.String(), g.String())
		}
		for j := range w.F {
			a, b := float64(w.F[j]), float64(g.F[j])
			if float32bits(w.F[j]) == float32bits(g.F[j]) {
				continue
			}
			ok := false
			switch {
			case w.K == world.KSetNReg || w.K == world.KSetLOD:
				ok = rel(a, b)
			case (w.K == world.KAbsArcTo || w.K == world.KRelArcTo) && j == 2:
				d := math.Abs((a - math.Floor(a)) - b)
				ok = d <= 1.0/(1<<20) || math.Abs(d-1) <= 1.0/(1<<20)
			case !hi[i] && a >= -128 && a < 128:
				ok = math.Abs(a-b) <= 1.0/128+1.0/2048
			default:
				ok = rel(a, b)
			}
			if !ok {
				return fmt.Sprintf("call #%d %s: number %v (0x%08x) decoded as %v (0x%08x)", i, w.K, w.F[j], float32bits(w.F[j]), g.F[j], float32bits(g.F[j]))
			}
		}
	}
	return ""
}

func c10Decodes(ctx *Ctx, b []byte, vb ivg.ViewBox, pal [64]color.RGBA, since []world.Op, hi []bool, at int) *report.Violation {
	// the clause is stated for a valid viewBox (finite bounds, min <= max);
	// with any other the history is still violation-free (Bytes must not
	// report an error: the automaton says so), but nothing is promised about
	// the decoder
	for _, f := range []float32{vb.MinX, vb.MinY, vb.MaxX, vb.MaxY} {
		if f != f || f-f != 0 {
			return nil
		}
	}
	if vb.MinX > vb.MaxX || vb.MinY > vb.MaxY {
		return nil
	}
	// Numbers that are not finite: the Encoder-side clauses are checked on
	// such histories (no protocol violation, so no error), the decoder-side
	// clause is not. Whether a decoder may refuse a path coordinate that is
	// not a number is a question of input validation, which the property
	// does not settle; a decoder that does (mutants/neutral-reject-nan) is
	// not reported.
	for i := range since {
		for j := 0; j < since[i].K.NArgs(); j++ {
			if f := since[i].F[j]; f != f || f-f != 0 {
				if ctx.Stats != nil {
					ctx.Stats.Add("decode_clause_not_applied_non_finite_numbers", 1)
				}
				return nil
			}
		}
	}
	rd := &world.RecDest{}
	var err error
	if p, _, msg := guard(func() { err = decode.Decode(rd, b) }); p {
		_ = msg // a decoder panic is C02's business
		return nil
	}
	if err != nil {
		return viol("C10", "decodes", "the decoder rejects the bytes of a violation-free history with all paths ended (after call #%d): %v", at, err)
	}
	want := make([]world.Op, 0, len(since)+1)
	pp := pal
	want = append(want, world.Op{K: world.KReset, VB: vb, Pal: &pp})
	want = append(want, since...)
	if d := world.FirstCallDiff(want, rd.Calls); d >= 0 && hi != nil {
		// numbers off the lattice: the same history up to the format's quantisation
		if msg := withinQuantisation(want, rd.Calls, hi); msg == "" {
			if ctx.Stats != nil {
				ctx.Stats.Add("decoded_within_quantisation", 1)
			}
			return nil
		} else {
			return viol("C10", "decodes", "bytes after call #%d decode to a different history (beyond the format's quantisation): %s", at, msg)
		}
	} else if d >= 0 {
		w, g := "<nothing>", "<nothing>"
		if d < len(want) {
			w = want[d].String()
		}
		if d < len(rd.Calls) {
			g = rd.Calls[d].String()
		}
		return viol("C10", "decodes", "bytes after call #%d decode to a different history: call #%d since Reset was %s, decoded as %s (%d vs %d calls)", at, d, w, g, len(want), len(rd.Calls))
	}
	return nil
}

// checkHistory evaluates every C10 invariant on one history.
func checkHistory(ctx *Ctx, hist []world.Op, deep bool) *report.Violation {
	return checkHistoryQ(ctx, hist, deep, false)
}

// checkHistoryQ: off says that the history carries numbers off the lattice,
// so that "decodes to that history" is judged up to the format's quantisation.
func checkHistoryQ(ctx *Ctx, hist []world.Op, deep bool, off bool) *report.Violation {
	// (1) probed run on the zero value, automaton in lockstep
	var e1 encode.Encoder
	r1, v := driveEncoder(ctx, &e1, hist, true, deep, off)
	if v != nil {
		return v
	}
	if r1.panicked {
		return nil
	}
	// (2) probe-free: Bytes only at the end gives the same result
	var e2 encode.Encoder
	q := ctx.Quiet()
	r2, v := driveEncoder(q, &e2, hist, false, false, off)
	if v != nil {
		return v
	}
	if r2.panicked {
		return nil
	}
	if !bytes.Equal(r1.final, r2.final) || (r1.finalErr != nil) != (r2.finalErr != nil) || (r1.finalErr != nil && r1.finalErr != r2.finalErr) {
		return viol("C10", "probe-free", "calling Bytes after every call changed the outcome: %d bytes err=%v with probes, %d bytes err=%v without", len(r1.final), r1.finalErr, len(r2.final), r2.finalErr)
	}
	// (3) zero value == one Reset with the default metadata
	if len(hist) == 0 || hist[0].K != world.KReset {
		var e3 encode.Encoder
		e3.Reset(ivg.DefaultViewBox, ivg.DefaultPalette)
		r3, v := driveEncoder(q, &e3, hist, true, false, off)
		if v != nil {
			v.Message = "on an Encoder reset with the default metadata: " + v.Message
			return v
		}
		if r3.panicked {
			return nil
		}
		for i := range r1.errAt {
			if r1.errAt[i] != r3.errAt[i] {
				return viol("C10", "zero-value", "after call #%d %s the zero-value Encoder reports error=%t, one reset with the default metadata reports error=%t", i, hist[i].String(), r1.errAt[i], r3.errAt[i])
			}
			if !r1.errAt[i] && r1.obsAt[i] != r3.obsAt[i] {
				return viol("C10", "zero-value", "after call #%d %s the zero-value Encoder reports (CSel,NSel,LOD bits)=%v, one reset with the default metadata reports %v", i, hist[i].String(), r1.obsAt[i], r3.obsAt[i])
			}
		}
		if !bytes.Equal(r1.final, r3.final) || (r1.finalErr != nil) != (r3.finalErr != nil) || (r1.finalErr != nil && r1.finalErr != r3.finalErr) {
			return viol("C10", "zero-value", "zero-value Encoder yields %d bytes err=%v, one reset with the default metadata yields %d bytes err=%v", len(r1.final), r1.finalErr, len(r3.final), r3.finalErr)
		}
		if ctx.Stats != nil {
			ctx.Stats.Add("zero_value_compared", 1)
		}
	}
	ctx.Fold(fnvAdd(fnv(r1.final), uint64(len(hist))))
	return nil
}

// ---------------------------------------------------------------------------

const c10FaultClasses = 7

// faultOp builds an out-of-protocol call of class c for a position whose
// protocol state is drawing or not. Classes that do not apply in that state
// are mapped onto ones that do, so that every (position, class) pair injects
// exactly one fault.
func faultOp(t *tape.Tape, c int, drawing bool) (world.Op, string) {
	badAdj := func() uint8 {
		switch t.Pick(3, 2, 1) {
		case 0:
			return 7
		case 1:
			return uint8(8 + t.Intn(8))
		}
		return uint8(7 + t.Intn(249))
	}
	if drawing {
		switch c % 4 {
		case 0:
			k := []world.Kind{world.KSetCSel, world.KSetNSel, world.KSetLOD}[t.Intn(3)]
			return world.Op{K: k, U: uint8(t.Intn(64)), F: [6]float32{0, 64}}, "styling op inside a path"
		case 1:
			if t.Bool() {
				return world.Op{K: world.KSetNReg, U: uint8(t.Intn(7)), F: [6]float32{world.NRegVal(t)}}, "register write inside a path"
			}
			return world.Op{K: world.KSetCReg, U: uint8(t.Intn(7)), C: world.GenColor(t)}, "register write inside a path"
		case 2:
			return world.Op{K: world.KStartPath, U: uint8(t.Intn(7)), F: [6]float32{world.LoCoord(t), world.LoCoord(t)}}, "StartPath inside a path"
		default:
			if t.Bool() {
				return world.Op{K: world.KSetCReg, Incr: true, C: world.GenColor(t)}, "incrementing register write inside a path"
			}
			return world.Op{K: world.KSetNReg, Incr: true, F: [6]float32{world.NRegVal(t)}}, "incrementing register write inside a path"
		}
	}
	switch c % 5 {
	case 0:
		k := world.Kind(int(world.KClosePathEndPath) + t.Intn(int(world.KRelArcTo-world.KClosePathEndPath)+1))
		o := world.Op{K: k}
		for i := 0; i < 5; i++ {
			o.F[i] = world.LoCoord(t)
		}
		if k == world.KAbsArcTo || k == world.KRelArcTo {
			o.F[2] = world.Angle(t)
		}
		return o, "drawing op outside a path"
	case 1:
		return world.Op{K: world.KSetCReg, U: badAdj(), C: world.GenColor(t)}, "SetCReg adj > 6"
	case 2:
		return world.Op{K: world.KSetNReg, U: badAdj(), F: [6]float32{world.NRegVal(t)}}, "SetNReg adj > 6"
	case 3:
		return world.Op{K: world.KStartPath, U: badAdj(), F: [6]float32{world.LoCoord(t), world.LoCoord(t)}}, "StartPath adj > 6"
	default:
		if t.Bool() {
			return world.Op{K: world.KSetCReg, U: uint8(1 + t.Intn(6)), Incr: true, C: world.GenColor(t)}, "incrementing SetCReg with adj != 0"
		}
		return world.Op{K: world.KSetNReg, U: uint8(1 + t.Intn(6)), Incr: true, F: [6]float32{world.NRegVal(t)}}, "incrementing SetNReg with adj != 0"
	}
}

// modesOf returns, for each position 0..len(h), whether a path is open there.
func modesOf(h []world.Op) []bool {
	m := &model.EncoderModel{}
	out := make([]bool, len(h)+1)
	for i := range h {
		out[i] = m.State == model.EncDrawing
		c, a, inc := classOf(&h[i])
		m.Step(c, a, inc)
	}
	out[len(h)] = m.State == model.EncDrawing
	return out
}

func insertAt(h []world.Op, i int, o world.Op) []world.Op {
	out := make([]world.Op, 0, len(h)+1)
	out = append(out, h[:i]...)
	out = append(out, o)
	return append(out, h[i:]...)
}

func probeOp(t *tape.Tape) world.Op {
	return world.Op{K: []world.Kind{world.KBytes, world.KCSel, world.KNSel, world.KLOD}[t.Intn(4)]}
}

func c10Run(ctx *Ctx, t *tape.Tape) *report.Violation {
	mode := t.Intn(4)
	st := ctx.Stats
	trace := func(v *report.Violation, hist []world.Op, notes ...string) *report.Violation {
		v.Trace = append(append([]string{}, notes...), world.FormatOps(hist, 60)...)
		v.Signature = v.Invariant
		return v
	}
	switch mode {
	case c10MetaSweep:
		// metadata the Encoder has to lay out: chunk lengths from 3 to 258
		// bytes, all four colour formats, every mix of 1-, 2- and 4-byte bounds
		i := t.Intn(c10MetaSweepCases)
		vb, pal := ivg.DefaultViewBox, ivg.DefaultPalette
		note := ""
		if i < 256 {
			cls := []int{0, 2, 3, 4}[i/64]
			n := i%64 + 1
			force := []color.RGBA{{0x40, 0x00, 0x80, 0xff}, {0x11, 0x22, 0x00, 0xff}, {0x01, 0x02, 0x03, 0xff}, {0x01, 0x01, 0x01, 0x02}}[i/64]
			for j := 0; j < n; j++ {
				pal[j] = world.GenRGBAClass(t, cls)
			}
			pal[0] = force // rules out every shorter format
			if pal[n-1] == ivg.DefaultPalette[n-1] {
				pal[n-1] = force
			}
			note = fmt.Sprintf("metadata sweep: %d explicit palette colours of class %d", n, cls)
		} else {
			k := i - 256
			val := func(form int, base float32) float32 {
				switch form {
				case 0:
					return base
				case 1:
					return base + 1.0/64
				}
				return base + 0.1
			}
			vb = ivg.ViewBox{MinX: val(k%3, -20), MinY: val((k/3)%3, -7), MaxX: val((k/9)%3, 30), MaxY: val((k/27)%3, 41)}
			note = fmt.Sprintf("metadata sweep: viewBox bounds in number forms %d %d %d %d (0: 1 byte, 1: 2 bytes, 2: 4 bytes)", k%3, (k/3)%3, (k/9)%3, (k/27)%3)
		}
		pp := pal
		h := []world.Op{{K: world.KReset, VB: vb, Pal: &pp}, {K: world.KSetCSel, U: 1}, {K: world.KStartPath, F: [6]float32{1, 1}},
			{K: world.KAbsLineTo, F: [6]float32{2, 3}}, {K: world.KClosePathEndPath}}
		if v := checkHistoryQ(ctx, h, true, true); v != nil {
			v = trace(v, h, note)
			v.Tape, v.KeepPrefix = []uint64{c10MetaSweep, uint64(i)}, 2
			return v
		}
		if st != nil {
			st.Add("evaluations", 1)
			st.Add("metadata_sweep_histories", 1)
			st.Distinct(fnvAdd(uint64(i), 19))
		}
		return nil
	case c10AdjSweep:
		// the whole uint8 range of the adjustment argument, not a few
		// representatives: on each of the three calls that take one, plain and
		// incrementing, on the zero value / after Reset / inside an open path,
		// followed by a legal remainder
		adj := uint8(t.Intn(256))
		calls := []world.Op{
			{K: world.KSetCReg, U: adj, C: ivg.RGBAColor(color.RGBA{0x40, 0x80, 0xc0, 0xff})},
			{K: world.KSetCReg, U: adj, Incr: true, C: ivg.RGBAColor(color.RGBA{0x40, 0x80, 0xc0, 0xff})},
			{K: world.KSetNReg, U: adj, F: [6]float32{0.5}},
			{K: world.KSetNReg, U: adj, Incr: true, F: [6]float32{0.5}},
			{K: world.KStartPath, U: adj, F: [6]float32{-8, -8}},
		}
		prefixes := [][]world.Op{
			nil,
			{{K: world.KReset, VB: ivg.DefaultViewBox, Pal: &ivg.DefaultPalette}},
			{{K: world.KReset, VB: ivg.ViewBox{MinX: -16, MinY: -16, MaxX: 16, MaxY: 16}, Pal: &ivg.DefaultPalette}, {K: world.KSetCSel, U: 7}},
			{{K: world.KStartPath, U: 1, F: [6]float32{4, 4}}, {K: world.KAbsLineTo, F: [6]float32{8, 4}}},
		}
		for ci := range calls {
			for pi := range prefixes {
				h := append([]world.Op(nil), prefixes[pi]...)
				h = append(h, calls[ci])
				m := modesOf(h)
				if !m[len(h)] {
					h = append(h, world.Op{K: world.KStartPath, F: [6]float32{1, 1}})
				}
				h = append(h, world.Op{K: world.KAbsLineTo, F: [6]float32{2, 3}}, world.Op{K: world.KClosePathEndPath})
				if v := checkHistory(ctx, h, true); v != nil {
					v = trace(v, h, fmt.Sprintf("adjustment sweep: adj=%d", adj))
					v.Tape, v.KeepPrefix = []uint64{c10AdjSweep, uint64(adj)}, 2
					return v
				}
				if st != nil {
					st.Add("evaluations", 1)
					st.Add("adj_sweep_histories", 1)
					st.Distinct(fnvAdd(uint64(adj)<<8|uint64(ci)<<4|uint64(pi), 17))
				}
			}
		}
		return nil
	case c10Exhaust:
		// block b of the enumeration: histories are numbered in base 16, all
		// lengths 1..depth, shorter ones first
		alpha := c10Alphabet()
		depth := c10Depth(ctx.Tier)
		block := t.Intn(c10ExhaustBlocks(ctx.Tier))
		lit := t.Intn(2) == 1 // replay form: the history follows on the tape
		if lit {
			n := t.Intn(depth + 1)
			h := make([]world.Op, n)
			for i := range h {
				h[i] = alpha[t.Intn(len(alpha))]
			}
			if v := checkHistory(ctx, h, true); v != nil {
				return trace(v, h, "history from the exhaustive enumeration over the abstract alphabet")
			}
			return nil
		}
		first := block * c10ExhaustBlock
		for idx := first; idx < first+c10ExhaustBlock; idx++ {
			syms := c10Unrank(idx, len(alpha), depth)
			if syms == nil {
				break
			}
			h := make([]world.Op, len(syms))
			for i, s := range syms {
				h[i] = alpha[s]
			}
			if v := checkHistory(ctx, h, true); v != nil {
				v = trace(v, h, "history from the exhaustive enumeration over the abstract alphabet")
				// literal form, so that the tape shrinker can drop calls
				lt := []uint64{c10Exhaust, 0, 1, uint64(len(syms))}
				for _, s := range syms {
					lt = append(lt, uint64(s))
				}
				v.Tape, v.KeepPrefix = lt, 3
				return v
			}
			if st != nil {
				st.Add("evaluations", 1)
				st.Add("exhaustive_histories", 1)
				st.Distinct(fnvAdd(uint64(idx), 13))
			}
		}
		return nil
	case c10Long:
		off := t.Bool()
		gc := world.GenCfg{MaxItems: 8, EncOnly: true, Observers: true, NoReset: t.Chance(1, 3), LongRuns: 20}
		if off {
			gc.LongRuns, gc.OffLattice = 2, true
		}
		h := world.GenProgram(t, gc)
		if off {
			// the resolution flag may be assigned at any moment, also while a
			// path is open: a path keeps the resolution it was started with
			for n := t.Intn(3); n > 0; n-- {
				h = insertAt(h, t.Intn(len(h)+1), world.Op{K: world.KSetHiRes, Incr: t.Bool()})
			}
			// off-lattice register and LOD numbers as well
			for i := range h {
				switch h[i].K {
				case world.KSetNReg:
					if t.Bool() {
						h[i].F[0] = world.OffReal(t)
					}
				case world.KSetLOD:
					if t.Bool() {
						h[i].F[0], h[i].F[1] = world.OffReal(t), world.OffReal(t)
					}
				}
			}
		}
		if off && t.Chance(1, 3) {
			// numbers the protocol says nothing about: the history stays
			// violation-free, so the stream must still decode to it (NaN as
			// NaN, an infinity as itself, -0 and a denormal within the
			// format's quantisation)
			hostile := []float32{float32(math.NaN()), float32(math.Inf(1)), float32(math.Inf(-1)), float32(math.Copysign(0, -1)),
				math.Float32frombits(3), math.Float32frombits(0x80000001), 3e38, -3e38, math.MaxFloat32, 1e-30}
			for n := 1 + t.Intn(2); n > 0; n-- {
				o := &h[t.Intn(len(h))]
				if k := o.K; k != world.KAbsArcTo && k != world.KRelArcTo && k.NArgs() > 0 {
					o.F[t.Intn(k.NArgs())] = hostile[t.Intn(len(hostile))]
					if st != nil {
						st.Add("hostile_numbers_in_legal_histories", 1)
					}
				}
			}
		}
		if v := checkHistoryQ(ctx, h, false, off); v != nil {
			return trace(v, h, "long legal history, no fault injected")
		}
		if st != nil && off {
			st.Add("off_lattice_histories", 1)
		}
		if st != nil {
			st.Add("evaluations", 1)
			st.Add("long_legal_histories", 1)
			st.Max("max_history_length", int64(len(h)))
		}
		return nil
	case c10Enum:
		cfg := world.GenCfg{MaxItems: 5, EncOnly: true, Observers: true, NoReset: t.Chance(1, 3)}
		h := world.GenProgram(t, cfg)
		if len(h) > 40 {
			// keep the cubic enumeration bounded: cut at a point where no path is open
			modes := modesOf(h)
			n := 40
			for n > 0 && modes[n] {
				n--
			}
			h = h[:n]
		}
		// a few probes at drawn positions: they mutate the zero value, so
		// their placement is part of the history
		for i := t.Intn(3); i > 0; i-- {
			h = insertAt(h, t.Intn(len(h)+1), probeOp(t))
		}
		if v := checkHistory(ctx, h, true); v != nil {
			return trace(v, h, "legal history, no fault injected")
		}
		if st != nil {
			st.Add("evaluations", 1)
			st.Add("legal_histories", 1)
		}
		modes := modesOf(h)
		tail := world.GenProgram(t, world.GenCfg{MaxItems: 3, EncOnly: true, ForceReset: true})
		for i := 0; i <= len(h); i++ {
			for c := 0; c < c10FaultClasses; c++ {
				f, what := faultOp(t, c, modes[i])
				hf := insertAt(h, i, f)
				if v := checkHistory(ctx, hf, false); v != nil {
					return trace(v, hf, fmt.Sprintf("fault injected at position %d: %s", i, what))
				}
				if st != nil {
					st.Add("evaluations", 1)
					st.Add("fault_"+what, 1)
					st.Distinct(fnvAdd(hashOps(hf), 10))
					if i > 0 && i < len(h) {
						st.Add("probe_fault_mid_history", 1)
					}
				}
				// restart: Reset at a later position, then a legal tail. All
				// positions for short histories, three drawn ones otherwise.
				var js []int
				if len(hf) <= 14 {
					for j := i + 1; j <= len(hf); j++ {
						js = append(js, j)
					}
				} else {
					js = []int{i + 1, i + 1 + t.Intn(len(hf)-i), len(hf)}
				}
				for _, j := range js {
					hr := append(append([]world.Op{}, hf[:j]...), tail...)
					if v := checkHistory(ctx, hr, false); v != nil {
						return trace(v, hr, fmt.Sprintf("fault injected at position %d: %s", i, what), fmt.Sprintf("Reset (restart) at position %d, then a legal tail", j))
					}
					if st != nil {
						st.Add("evaluations", 1)
						st.Add("restart_after_fault", 1)
						st.Distinct(fnvAdd(hashOps(hr), 11))
					}
				}
			}
		}
		if st != nil && st.WantSample(3) {
			st.Sample(3, map[string]interface{}{"kind": "legal history; a fault of each of 7 classes was injected at each of its positions, then Reset at later positions", "history": world.FormatOps(h, 24)})
		}
		return nil

	default:
		h := genHistory(t)
		if v := checkHistory(ctx, h, true); v != nil {
			return trace(v, h, "seeded history over the whole alphabet")
		}
		if st != nil {
			st.Add("evaluations", 1)
			st.Add("random_histories", 1)
			nf, nr := 0, 0
			m := &model.EncoderModel{}
			for i := range h {
				c, a, inc := classOf(&h[i])
				before := m.Faults
				m.Step(c, a, inc)
				if m.Faults > before {
					nf++
				}
				if c == model.ClsReset && i > 0 {
					nr++
				}
			}
			if nf > 0 || nr > 0 {
				st.Distinct(fnvAdd(hashOps(h), 12))
			}
			if nr > 0 && nf > 0 {
				st.Add("probe_fault_and_reset_in_one_history", 1)
			}
			if st.WantSample(6) && nf > 0 && nr > 0 {
				st.Sample(6, map[string]interface{}{"kind": "seeded history", "faults": nf, "resets_after_first_call": nr, "history": world.FormatOps(h, 24)})
			}
		}
		return nil
	}
}

// genHistory draws a history over the whole alphabet. With probability
// legalBias/8 per step it picks a call that is legal in the current protocol
// state, so that runs get deep between faults; otherwise any call.
func genHistory(t *tape.Tape) []world.Op {
	n := t.Range(1, 30)
	legalBias := t.Range(4, 8)
	wReset, wObs := t.Intn(3), t.Intn(3)
	m := &model.EncoderModel{}
	var h []world.Op
	for i := 0; i < n; i++ {
		var o world.Op
		legal := t.Intn(8) < legalBias
		drawing := m.State == model.EncDrawing
		switch cls := t.Pick(wReset, wObs+1, 6, 2); {
		case cls == 0:
			o = world.Op{K: world.KReset, VB: world.GenViewBox(t), Pal: world.GenPalette(t)}
			if t.Chance(1, 12) {
				// exactly Go's zero values: what a caller passes who declares a
				// Metadata and fills in nothing (a valid, zero-extent viewBox and an
				// all-transparent palette), and what an Encoder that was only ever
				// initialised lazily has in its never-written metadata field
				o.VB, o.Pal = ivg.ViewBox{}, &[64]color.RGBA{}
			} else if t.Chance(1, 10) {
				// valid but extreme: finite bounds whose extent overflows float32,
				// tiny and huge magnitudes (all exactly representable in the
				// 4-byte form, so that the decode oracle stays bit-exact)
				big, tiny := float32(math.Ldexp(1, 127)), float32(math.Ldexp(1, -100))
				o.VB = []ivg.ViewBox{{MinX: -big, MinY: -big, MaxX: big, MaxY: big}, {MinX: -big, MinY: 0, MaxX: big, MaxY: 48}, {MinX: 0, MinY: 0, MaxX: big, MaxY: 1},
					{MinX: -tiny, MinY: -tiny, MaxX: tiny, MaxY: tiny}, {MinX: float32(math.Ldexp(1, 100)), MinY: 0, MaxX: float32(math.Ldexp(1, 101)), MaxY: float32(math.Ldexp(1, 30))}}[t.Intn(5)]
			} else if t.Chance(1, 8) {
				// a viewBox the format calls invalid is not a protocol violation:
				// the Encoder must not start reporting errors because of it
				nan, inf := float32(math.NaN()), float32(math.Inf(1))
				o.VB = []ivg.ViewBox{{MinX: 8, MinY: 0, MaxX: -8, MaxY: 4}, {MinX: 0, MinY: 9, MaxX: 1, MaxY: 3}, {MinX: nan, MinY: 0, MaxX: 1, MaxY: 1},
					{MinX: 0, MinY: 0, MaxX: inf, MaxY: 1}, {MinX: -inf, MinY: 0, MaxX: 1, MaxY: 1}, {MinX: 3, MinY: 3, MaxX: 3, MaxY: 3}, {}}[t.Intn(7)]
			}
		case cls == 1:
			o = probeOp(t)
			if t.Chance(1, 4) {
				o = world.Op{K: world.KSetHiRes, Incr: t.Bool()}
			}
		case legal && drawing:
			k := world.Kind(int(world.KClosePathEndPath) + t.Intn(int(world.KRelArcTo-world.KClosePathEndPath)+1))
			if t.Chance(1, 4) {
				k = world.KClosePathEndPath
			}
			o = world.Op{K: k, LA: t.Bool(), SW: t.Bool()}
			for j := 0; j < 6; j++ {
				o.F[j] = world.LoCoord(t)
			}
			if k == world.KAbsArcTo || k == world.KRelArcTo {
				o.F[2] = world.Angle(t)
			}
			for j := k.NArgs(); j < 6; j++ {
				o.F[j] = 0
			}
			if k != world.KAbsArcTo && k != world.KRelArcTo {
				o.LA, o.SW = false, false
			}
		case legal:
			switch t.Pick(2, 2, 3, 3, 1, 3) {
			case 0:
				o = world.Op{K: world.KSetCSel, U: uint8(t.Intn(256))}
			case 1:
				o = world.Op{K: world.KSetNSel, U: uint8(t.Intn(256))}
			case 2:
				o = world.Op{K: world.KSetCReg, C: world.GenColor(t)}
				if t.Bool() {
					o.Incr = true
				} else {
					o.U = uint8(t.Intn(7))
				}
			case 3:
				o = world.Op{K: world.KSetNReg, F: [6]float32{world.NRegVal(t)}}
				if t.Bool() {
					o.Incr = true
				} else {
					o.U = uint8(t.Intn(7))
				}
			case 4:
				o = world.Op{K: world.KSetLOD, F: [6]float32{world.LODVal(t, false), world.LODVal(t, true)}}
			default:
				o = world.Op{K: world.KStartPath, U: uint8(t.Intn(7)), F: [6]float32{world.LoCoord(t), world.LoCoord(t)}}
			}
		default:
			o, _ = faultOp(t, t.Intn(c10FaultClasses), drawing)
		}
		h = append(h, o)
		c, a, inc := classOf(&o)
		m.Step(c, a, inc)
	}
	// half of the histories are closed off legally so that the decode oracle applies
	if t.Bool() {
		if m.State == model.EncDrawing {
			h = append(h, world.Op{K: world.KClosePathEndPath})
		}
	}
	return h
}

const c10MetaSweepCases = 256 + 81

func c10Depth(tier string) int {
	if tier == "thorough" {
		return 7
	}
	return 5
}

// c10Total is the number of histories of length 1..depth over k symbols.
func c10Total(k, depth int) int {
	n, p := 0, 1
	for d := 1; d <= depth; d++ {
		p *= k
		n += p
	}
	return n
}

func c10ExhaustBlocks(tier string) int {
	return (c10Total(16, c10Depth(tier)) + c10ExhaustBlock - 1) / c10ExhaustBlock
}

// c10Unrank returns the idx-th history (shorter first), nil past the end.
func c10Unrank(idx, k, depth int) []int {
	p := 1
	for d := 1; d <= depth; d++ {
		p *= k
		if idx < p {
			out := make([]int, d)
			for i := d - 1; i >= 0; i-- {
				out[i] = idx % k
				idx /= k
			}
			return out
		}
		idx -= p
	}
	return nil
}

func init() {
	register(&Property{
		ID:    "C10",
		Level: "fault_enumeration",
		Cases: func(ctx *Ctx) int {
			if ctx.Tier == "thorough" {
				return 120000 + 4000000 + 400000 + c10ExhaustBlocks(ctx.Tier) + 256 + c10MetaSweepCases
			}
			return 8000 + 300000 + 20000 + c10ExhaustBlocks(ctx.Tier) + 256 + c10MetaSweepCases
		},
		Prefix: func(ctx *Ctx, i int) []uint64 {
			nEnum := 8000
			if ctx.Tier == "thorough" {
				nEnum = 120000
			}
			nRandom := 300000
			if ctx.Tier == "thorough" {
				nRandom = 4000000
			}
			if i < nEnum {
				return []uint64{c10Enum}
			}
			if i < nEnum+nRandom {
				return []uint64{c10Random}
			}
			nLong := 20000
			if ctx.Tier == "thorough" {
				nLong = 400000
			}
			if i < nEnum+nRandom+nLong {
				return []uint64{c10Long}
			}
			if i -= nEnum + nRandom + nLong; i < c10ExhaustBlocks(ctx.Tier) {
				return []uint64{c10Exhaust, uint64(i), 0}
			}
			if i -= c10ExhaustBlocks(ctx.Tier); i < 256 {
				return []uint64{c10AdjSweep, uint64(i)}
			}
			return []uint64{c10MetaSweep, uint64(i - 256)}
		},
		Run: c10Run,
		Describe: func(tier string, s *report.Stats, cases int) Evidence {
			return Evidence{
				Rule: "Cases are call histories on the real encode.Encoder with the 4-state reference automaton (Initial/Styling/Drawing/Error, written from the property text) stepped in lockstep and compared through a Bytes probe after every call. (a) Fault enumeration: for each sampled legal history H (lattice arguments, probes at drawn positions) one out-of-protocol call of each of 7 classes is injected at every position of H; for each such faulted history a Reset (restart) is placed at every later position (all positions when the history has <=14 calls, three drawn ones otherwise) followed by a legal tail that must decode to exactly itself. (b) Exhaustive: every history up to depth 5 (quick) / 7 (thorough) over an abstract alphabet of 16 representative calls, as the property's quantifier asks. (b') every adjustment value 0..255 on SetCReg/SetNReg (plain and incrementing) and StartPath, on the zero value, after Reset and inside an open path, each followed by a legal remainder. (b'') every suggested-palette layout (4 colour formats x 1..64 explicit colours) and every combination of 1-, 2- and 4-byte number forms of the four viewBox bounds, decode oracle. (c) Long legal histories with runs of 37-300 identical drawing calls (decode oracle). (d) Seeded histories over the whole alphabet (Reset, observers, resolution flag, legal and illegal calls) with no regard to legality. Every history is run three ways: probed on the zero value, unprobed (probe-free), and probed on an Encoder reset with the default metadata (zero-value). distinct_nontrivial = hash-bitmap count of distinct histories that contain at least one fault or a Reset after the first call.",
				Extra: map[string]interface{}{
					"fault_kinds_fired":                    s.SortedCounters("fault_"),
					"histories_driven_on_the_real_encoder": s.Counters["histories_driven"],
					"calls_driven":                         s.Counters["calls_driven"],
					"end_states":                           s.SortedCounters("end_state_"),
					"streams_decoded_and_compared":         s.Counters["decoded_and_compared"],
					"zero_value_vs_default_reset_compared": s.Counters["zero_value_compared"],
					"restarts_after_a_fault":               s.Counters["restart_after_fault"],
					"legal_histories_enumerated_over":      s.Counters["legal_histories"],
					"seeded_histories":                     s.Counters["random_histories"],
					"long_legal_histories":                 s.Counters["long_legal_histories"],
					"off_lattice_histories_(decode oracle up to the format's quantisation)": s.Counters["off_lattice_histories"],
					"legal_histories_carrying_NaN_Inf_minus_zero_denormal_or_huge_numbers":  s.Counters["hostile_numbers_in_legal_histories"],
					"streams_decoded_within_quantisation":                                   s.Counters["decoded_within_quantisation"],
					"exhaustive_histories":                                                  s.Counters["exhaustive_histories"],
					"exhaustive_subspace":                                                   fmt.Sprintf("every history of length 1..%d over an abstract alphabet of 16 representative calls (2 Resets, CSel, Bytes, LOD, SetCSel, SetCReg ok, SetNReg incr ok, SetLOD, SetCReg bad adj, SetNReg bad incr, StartPath ok, StartPath bad adj, draw, close-move, end-path) is enumerated completely: %d histories", c10Depth(tier), c10Total(16, c10Depth(tier))),
					"longest_history":                                                       s.Counters["max_history_length"],
					"reach_probes": map[string]int64{
						"fault injected strictly inside a history":           s.Counters["probe_fault_mid_history"],
						"seeded history with both a fault and a later Reset": s.Counters["probe_fault_and_reset_in_one_history"],
						"histories containing a fault":                       s.Counters["histories_with_fault"],
					},
					"simulated_time": "none: the Encoder has no clock; the unit is one Destination call",
					"components": map[string]string{
						"real": "encode.Encoder (all 30 Destination methods, Bytes, CSel, NSel, LOD, HighResolutionCoordinates), decode.Decode for the 'decodes to that history' oracle",
						"stub": "history generator, fault injector, reference automaton, recording Destination",
					},
				},
				Assumptions: []string{
					"arguments lie on the dyadic lattice of their slot, so 'decodes to that history' is checked bit for bit; numbers off the lattice (codec rounding) are a C01/C08 matter",
					"viewBoxes are valid and palettes premultiplied, as the property's precondition says",
					"the error message text is not mirrored: only error-ness, type (encode.EncodeError) and identity of the first error are compared",
				},
			}
		},
	})
}
