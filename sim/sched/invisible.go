package sched

import (
	"fmt"
	"runtime"
	"sync"
)

// RunInvisible executes the tasks under the decider exactly like Run, but
// hands the baton over through plain memory that the Go race detector does
// not see (every function that touches it is marked //go:norace and waits by
// polling with runtime.Gosched on a single P). To the detector the tasks
// are then goroutines without any happens-before edge between them, so ANY
// pair of conflicting accesses made by two different tasks — whatever the
// values written, however far apart in time — is reported as a data race,
// while the interleaving itself stays a pure function of the tape. That
// turns the race detector into an invariant monitor of a deterministic
// execution instead of an observer of an uncontrolled one.
//
// It must run with GOMAXPROCS(1).
func RunInvisible(tasks []func(), d Decider, install func(func(int)), stepLimit int) Stats {
	n := len(tasks)
	s := &isched{d: d, n: n, limit: stepLimit, turn: -1, inLib: make([]bool, n), finished: make([]bool, n), gids: make([]uint64, n)}
	s.st.Panics = make([]string, n)
	install(s.hook)
	var wg sync.WaitGroup
	wg.Add(n)
	for i := range tasks {
		i := i
		go func() {
			defer wg.Done() // the only visible synchronisation: after the task's last access
			s.await(int32(i))
			s.setGid(i)
			defer func() {
				if r := recover(); r != nil {
					s.notePanic(i, fmt.Sprint(r))
				}
				s.finish(int32(i))
			}()
			tasks[i]()
		}()
	}
	s.loop()
	wg.Wait()
	install(nil)
	return s.st
}

type isched struct {
	d        Decider
	n        int
	limit    int
	turn     int32 // whose turn it is; -1 = the scheduler
	cur      int
	step     int
	inLib    []bool
	finished []bool
	msgSite  int
	msgDone  bool
	st       Stats
	gids     []uint64
}

//go:norace
func (s *isched) await(id int32) {
	for s.turn != id {
		runtime.Gosched()
	}
}

//go:norace
func (s *isched) notePanic(i int, msg string) { s.st.Panics[i] = msg }

//go:norace
func (s *isched) finish(id int32) {
	s.msgDone, s.msgSite = true, 0
	s.turn = -1
}

//go:norace
func (s *isched) hook(site int) {
	t := s.cur
	if t < 0 || s.turn != int32(t) {
		return
	}
	s.step++
	s.inLib[t] = true
	if s.limit > 0 && s.step > s.limit {
		panic(ErrRunaway)
	}
	if !s.d.Preempt(s.step, site, t) {
		return
	}
	if goid() != s.gids[t] {
		s.st.Foreign++ // a goroutine the library started itself: never parked
		return
	}
	s.msgDone, s.msgSite = false, site
	s.turn = -1
	for s.turn != int32(t) {
		runtime.Gosched()
	}
}

//go:norace
func (s *isched) loop() {
	prev := -1
	h := uint64(14695981039346656037)
	for {
		var runnable []int
		for i := 0; i < s.n; i++ {
			if !s.finished[i] {
				runnable = append(runnable, i)
			}
		}
		if len(runnable) == 0 {
			break
		}
		next := s.d.Next(runnable, prev)
		ok := false
		for _, r := range runnable {
			if r == next {
				ok = true
			}
		}
		if !ok {
			next = runnable[0]
		}
		s.cur = next
		s.turn = int32(next)
		for s.turn != -1 {
			runtime.Gosched()
		}
		s.cur = -1
		s.st.Slices++
		if s.msgDone {
			s.finished[next] = true
			s.inLib[next] = false
		} else {
			inside := 0
			for i := 0; i < s.n; i++ {
				if s.inLib[i] && !s.finished[i] {
					inside++
				}
			}
			if inside >= 2 {
				s.st.Overlaps++
			}
			s.st.Switches = append(s.st.Switches, Switch{Step: s.step, Site: s.msgSite, From: next})
			h ^= uint64(next)<<32 | uint64(uint32(s.msgSite))
			h *= 1099511628211
		}
		prev = next
	}
	s.st.Steps = s.step
	s.st.Hash = h
}

//go:norace
func (s *isched) setGid(i int) { s.gids[i] = goid() }
