// Package sched is the simulator's scheduler: N tasks run as real
// goroutines, but exactly one holds the baton at any time. A task runs until
// the hook, called at a yield site, decides to preempt it; it then hands the
// baton to the scheduler goroutine and parks. Who runs next, and where the
// preemptions fall, is decided by a Decider that draws from the run's tape,
// so a schedule is a pure function of the tape at any GOMAXPROCS.
package sched

import (
	"fmt"
	"runtime"
)

// Decider makes the two scheduling decisions.
type Decider interface {
	// Preempt is asked at every yield site reached by the running task.
	// step counts yield sites reached so far in the whole run.
	Preempt(step int, site int, task int) bool
	// Next picks the task to run among the runnable ones (non-empty).
	Next(runnable []int, prev int) int
}

// Switch records one preemption.
type Switch struct {
	Step int
	Site int
	From int
	To   int
}

// Stats describes the schedule that was executed.
type Stats struct {
	Steps    int
	Slices   int
	Switches []Switch // preemptions only (not hand-overs at task end)
	Hash     uint64   // hash of the (task, site) switch sequence
	Overlaps int      // preemptions that landed while >=2 tasks were inside library code
	Panics   []string // per task: the panic message, "" if none
	Foreign  int      // preemption points reached on a goroutine that is none of the tasks (started by the library itself): never preempted there
}

type msg struct {
	task int
	site int
	done bool
}

// Sched runs one set of tasks once.
type Sched struct {
	d       Decider
	resume  []chan struct{}
	back    chan msg
	cur     int
	started []bool
	inLib   []bool // the task has reached at least one yield site and has not finished
	step    int
	st      Stats
	limit   int
	gids    []uint64 // goroutine id of each task
}

// ErrRunaway is returned when a run exceeds its step budget.
var ErrRunaway = fmt.Errorf("schedule exceeded its step budget")

// Hook returns the function to install as the library's yield hook while
// Run executes. It must only be called from the task that holds the baton.
func (s *Sched) hook(site int) {
	t := s.cur
	if t < 0 {
		return // not inside a scheduled task (e.g. package init)
	}
	s.step++
	s.inLib[t] = true
	if s.limit > 0 && s.step > s.limit {
		panic(ErrRunaway)
	}
	if !s.d.Preempt(s.step, site, t) {
		return
	}
	if goid() != s.gids[t] {
		// a goroutine the library started itself: it is not a task and holds
		// no baton, so it cannot be parked
		s.st.Foreign++
		return
	}
	s.back <- msg{task: t, site: site}
	<-s.resume[t]
}

// goid returns the id of the calling goroutine (parsed from its stack
// header; only used on the rare preemption path).
//
//go:norace
func goid() uint64 {
	var buf [64]byte
	n := runtime.Stack(buf[:], false)
	var id uint64
	for _, c := range buf[len("goroutine "):n] {
		if c < '0' || c > '9' {
			break
		}
		id = id*10 + uint64(c-'0')
	}
	return id
}

// Run executes the tasks under the decider. install is called with the hook
// to plug into the instrumented library and again with nil at the end.
// afterSlice runs on the scheduler goroutine every time control returns to
// it (task = the task that just ran); a non-nil error stops the run.
func Run(tasks []func(), d Decider, install func(func(int)), afterSlice func(task int, finished bool) error, stepLimit int) (Stats, error) {
	n := len(tasks)
	s := &Sched{d: d, resume: make([]chan struct{}, n), back: make(chan msg), cur: -1, started: make([]bool, n), inLib: make([]bool, n), limit: stepLimit, gids: make([]uint64, n)}
	for i := range s.resume {
		s.resume[i] = make(chan struct{})
	}
	s.st.Panics = make([]string, n)
	install(s.hook)
	defer install(nil)
	finished := make([]bool, n)
	for i := range tasks {
		i := i
		go func() {
			<-s.resume[i]
			s.gids[i] = goid()
			defer func() {
				if r := recover(); r != nil {
					s.st.Panics[i] = fmt.Sprint(r)
				}
				s.back <- msg{task: i, done: true}
			}()
			tasks[i]()
		}()
	}
	prev := -1
	var firstErr error
	h := uint64(14695981039346656037)
	for {
		var runnable []int
		for i := 0; i < n; i++ {
			if !finished[i] {
				runnable = append(runnable, i)
			}
		}
		if len(runnable) == 0 {
			break
		}
		next := s.d.Next(runnable, prev)
		ok := false
		for _, r := range runnable {
			if r == next {
				ok = true
			}
		}
		if !ok {
			next = runnable[0]
		}
		s.cur = next
		s.resume[next] <- struct{}{}
		m := <-s.back
		s.cur = -1
		s.st.Slices++
		if m.done {
			finished[m.task] = true
			s.inLib[m.task] = false
		} else {
			// a preemption: who is mid-flight?
			inside := 0
			for i := 0; i < n; i++ {
				if s.inLib[i] && !finished[i] {
					inside++
				}
			}
			if inside >= 2 {
				s.st.Overlaps++
			}
			s.st.Switches = append(s.st.Switches, Switch{Step: s.step, Site: m.site, From: m.task})
			h ^= uint64(m.task)<<32 | uint64(uint32(m.site))
			h *= 1099511628211
		}
		prev = m.task
		if afterSlice != nil && firstErr == nil {
			if err := afterSlice(m.task, m.done); err != nil {
				firstErr = err
				// let the remaining tasks run to completion without further
				// checks so that no goroutine is left parked
				afterSlice = nil
			}
		}
	}
	s.st.Steps = s.step
	s.st.Hash = h
	for i := range s.st.Switches {
		if i+1 < len(s.st.Switches) {
			s.st.Switches[i].To = s.st.Switches[i+1].From
		}
	}
	return s.st, firstErr
}

// ---------------------------------------------------------------------------

// PCT is a probabilistic-concurrency-testing style decider: a few change
// points over the expected number of steps, each naming the task to switch
// to; between change points the running task continues, and when it ends
// the runnable task with the highest priority continues.
type PCT struct {
	Points  []int // step numbers at which to preempt (ascending)
	Targets []int // task to switch to at each point
	Prio    []int // task priorities (a permutation); lower runs first
	next    int
	want    int
}

// Reset prepares the decider for a run.
func (p *PCT) Reset() { p.next, p.want = 0, -1 }

//go:norace
func (p *PCT) Preempt(step, site, task int) bool {
	if p.next < len(p.Points) && step >= p.Points[p.next] {
		p.want = p.Targets[p.next]
		p.next++
		return p.want != task
	}
	return false
}

//go:norace
func (p *PCT) Next(runnable []int, prev int) int {
	if p.want >= 0 {
		w := p.want
		p.want = -1
		for _, r := range runnable {
			if r == w {
				return r
			}
		}
	}
	best := runnable[0]
	for _, r := range runnable {
		if p.Prio[r] < p.Prio[best] {
			best = r
		}
	}
	return best
}

// Chaos preempts with probability 1/Den at every site, drawing from its own
// sub-stream (one tape value seeds it).
type Chaos struct {
	Den  int
	Rand func() uint64
}

//go:norace
func (c *Chaos) Preempt(step, site, task int) bool { return c.Rand()%uint64(c.Den) == 0 }

//go:norace
func (c *Chaos) Next(runnable []int, prev int) int {
	return runnable[int(c.Rand()%uint64(len(runnable)))]
}

// Serial never preempts: tasks run one after the other (reference runs).
type Serial struct{}

func (Serial) Preempt(step, site, task int) bool { return false }
func (Serial) Next(runnable []int, prev int) int { return runnable[0] }
