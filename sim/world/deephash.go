package world

import (
	"fmt"
	"math"
	"reflect"
	"sort"
	"strings"
	"unsafe"
)

// DeepHash hashes everything reachable from ptr (a pointer to a package-level
// variable): unexported fields are read through unsafe, maps in sorted key
// order, functions and channels by identity; fields of sync and sync/atomic
// types are skipped (their bookkeeping is not data). It is used to detect
// that "no operation writes to any package-level variable".
func DeepHash(ptr interface{}) uint64 {
	h := &hasher{h: 14695981039346656037, seen: map[unsafe.Pointer]bool{}}
	v := reflect.ValueOf(ptr)
	if v.Kind() != reflect.Ptr || v.IsNil() {
		return 0
	}
	h.value(v.Elem(), 0)
	return h.h
}

type hasher struct {
	h    uint64
	seen map[unsafe.Pointer]bool
}

func (h *hasher) u64(x uint64) {
	for i := 0; i < 8; i++ {
		h.h ^= x & 0xff
		h.h *= 1099511628211
		x >>= 8
	}
}

func (h *hasher) str(s string) {
	h.u64(uint64(len(s)))
	for i := 0; i < len(s); i++ {
		h.h ^= uint64(s[i])
		h.h *= 1099511628211
	}
}

// open returns an addressable, writable view of v so that unexported fields
// can be read.
func open(v reflect.Value) reflect.Value {
	if v.CanAddr() {
		return reflect.NewAt(v.Type(), unsafe.Pointer(v.UnsafeAddr())).Elem()
	}
	return v
}

func (h *hasher) value(v reflect.Value, depth int) {
	if depth > 64 {
		return
	}
	if !v.IsValid() {
		h.u64(0xdead)
		return
	}
	t := v.Type()
	if p := t.PkgPath(); p == "sync" || p == "sync/atomic" {
		return
	}
	v = open(v)
	switch v.Kind() {
	case reflect.Bool:
		if v.Bool() {
			h.u64(1)
		} else {
			h.u64(0)
		}
	case reflect.Int, reflect.Int8, reflect.Int16, reflect.Int32, reflect.Int64:
		h.u64(uint64(v.Int()))
	case reflect.Uint, reflect.Uint8, reflect.Uint16, reflect.Uint32, reflect.Uint64, reflect.Uintptr:
		h.u64(v.Uint())
	case reflect.Float32, reflect.Float64:
		h.u64(math.Float64bits(v.Float()))
	case reflect.Complex64, reflect.Complex128:
		c := v.Complex()
		h.u64(math.Float64bits(real(c)))
		h.u64(math.Float64bits(imag(c)))
	case reflect.String:
		h.str(v.String())
	case reflect.Array:
		for i := 0; i < v.Len(); i++ {
			h.value(v.Index(i), depth+1)
		}
	case reflect.Slice:
		h.u64(uint64(v.Len()))
		if v.Len() > 0 && v.Type().Elem().Kind() == reflect.Uint8 {
			b := unsafe.Slice((*byte)(unsafe.Pointer(v.Pointer())), v.Len())
			for _, x := range b {
				h.h ^= uint64(x)
				h.h *= 1099511628211
			}
			return
		}
		for i := 0; i < v.Len(); i++ {
			h.value(v.Index(i), depth+1)
		}
	case reflect.Struct:
		for i := 0; i < v.NumField(); i++ {
			h.value(v.Field(i), depth+1)
		}
	case reflect.Ptr:
		if v.IsNil() {
			h.u64(0)
			return
		}
		p := unsafe.Pointer(v.Pointer())
		if h.seen[p] {
			h.u64(0x5ee)
			return
		}
		h.seen[p] = true
		h.u64(1)
		h.value(v.Elem(), depth+1)
	case reflect.Interface:
		if v.IsNil() {
			h.u64(0)
			return
		}
		e := v.Elem()
		h.str(e.Type().String())
		c := reflect.New(e.Type()).Elem()
		c.Set(e)
		h.value(c, depth+1)
	case reflect.Map:
		h.u64(uint64(v.Len()))
		if v.Len() == 0 {
			return
		}
		type kv struct {
			k string
			h uint64
		}
		var items []kv
		it := v.MapRange()
		for it.Next() {
			kh := &hasher{h: 14695981039346656037, seen: h.seen}
			kc := reflect.New(it.Key().Type()).Elem()
			kc.Set(it.Key())
			kh.value(kc, depth+1)
			vc := reflect.New(it.Value().Type()).Elem()
			vc.Set(it.Value())
			kh.value(vc, depth+1)
			items = append(items, kv{fmt.Sprint(it.Key().Interface()), kh.h})
		}
		sort.Slice(items, func(i, j int) bool {
			if items[i].k != items[j].k {
				return items[i].k < items[j].k
			}
			return items[i].h < items[j].h
		})
		for _, x := range items {
			h.u64(x.h)
		}
	case reflect.Func, reflect.Chan, reflect.UnsafePointer:
		h.u64(uint64(v.Pointer()))
	}
}

// ShallowBytes returns the direct memory of the variable ptr points to (no
// pointers followed): cheap enough to compare after every scheduling slice.
func ShallowBytes(ptr interface{}) []byte {
	v := reflect.ValueOf(ptr)
	if v.Kind() != reflect.Ptr || v.IsNil() {
		return nil
	}
	n := int(v.Elem().Type().Size())
	if n == 0 {
		return nil
	}
	return unsafe.Slice((*byte)(unsafe.Pointer(v.Pointer())), n)
}

// TypeIsSync reports whether a variable is itself sync bookkeeping.
func TypeIsSync(ptr interface{}) bool {
	t := reflect.TypeOf(ptr)
	if t.Kind() != reflect.Ptr {
		return false
	}
	p := t.Elem().PkgPath()
	return p == "sync" || strings.HasPrefix(p, "sync/")
}

// ContainsSync reports whether the variable's type holds, by value, a sync or
// sync/atomic type (then its direct bytes include lock state and are not
// compared shallowly).
func ContainsSync(ptr interface{}) bool {
	t := reflect.TypeOf(ptr)
	if t.Kind() != reflect.Ptr {
		return false
	}
	return typeHasSync(t.Elem(), 0)
}

func typeHasSync(t reflect.Type, depth int) bool {
	if depth > 16 {
		return false
	}
	if p := t.PkgPath(); p == "sync" || strings.HasPrefix(p, "sync/") {
		return true
	}
	switch t.Kind() {
	case reflect.Struct:
		for i := 0; i < t.NumField(); i++ {
			if typeHasSync(t.Field(i).Type, depth+1) {
				return true
			}
		}
	case reflect.Array:
		return typeHasSync(t.Elem(), depth+1)
	}
	return false
}
