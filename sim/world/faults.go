package world

import (
	"fmt"
	"math"

	"verif/sim/tape"
)

// FaultKind names what the storage or transport did to a stored file.
type FaultKind uint8

const (
	FTruncate    FaultKind = iota // torn write / short read: keep s[:k]
	FFlipBit                      // bit rot
	FSetByte                      // byte replaced
	FZeroRange                    // lost block read back as zeros
	FDropRange                    // lost block, later data shifted down
	FDupRange                     // block written twice
	FSplice                       // misdirected block: a range of another file lands here
	FFraming                      // a framing natural (count/length/MID) replaced by a boundary value
	FOperand                      // a number operand replaced by a hostile float
	FGarbageTail                  // trailing garbage after the stream
	NFaultKinds
)

var faultNames = [...]string{"truncate", "flip_bit", "set_byte", "zero_range", "drop_range", "dup_range", "splice", "framing", "operand", "garbage_tail"}

func (k FaultKind) String() string { return faultNames[k] }

// Fault describes one injected fault, for traces.
type Fault struct {
	Kind FaultKind
	Off  int
	Len  int
	Note string
}

func (f Fault) String() string {
	return fmt.Sprintf("%s@%d len=%d %s", f.Kind, f.Off, f.Len, f.Note)
}

// pickOffset draws an offset biased towards in-flight structure: two thirds
// of the draws land on a mark (opcode, operand, inside a repeat group, arc
// operands, framing naturals), the rest anywhere in the file.
func pickOffset(t *tape.Tape, s []byte, marks []Mark, want func(MarkKind) bool) (off int, mk *Mark) {
	if len(s) == 0 {
		return 0, nil
	}
	if len(marks) > 0 && t.Chance(2, 3) {
		// a few tries to find a mark of the wanted kind
		for try := 0; try < 4; try++ {
			m := &marks[t.Intn(len(marks))]
			if m.Off < len(s) && (want == nil || want(m.Kind)) {
				o := m.Off
				if m.Kind == MarkOpcode && t.Bool() && o+1 < len(s) {
					o++ // the byte after an opcode
				}
				return o, m
			}
		}
	}
	return t.Intn(len(s)), nil
}

var framingVals = []uint32{0, 1, 2, 127, 128, 16383, 16384, 1<<30 - 1}

// Inject applies one fault drawn from the tape to s and returns the faulted
// copy. other supplies foreign blocks for splices. enabled masks fault kinds
// (swarm). s is never modified.
func Inject(t *tape.Tape, s []byte, marks []Mark, other []byte, enabled [NFaultKinds]bool) ([]byte, Fault) {
	var kinds []FaultKind
	for k := FaultKind(0); k < NFaultKinds; k++ {
		if enabled[k] {
			kinds = append(kinds, k)
		}
	}
	if len(kinds) == 0 {
		kinds = []FaultKind{FSetByte}
	}
	k := kinds[t.Intn(len(kinds))]
	out := append([]byte(nil), s...)
	f := Fault{Kind: k}
	if len(s) == 0 {
		if k == FGarbageTail {
			out = append(out, byte(t.Intn(256)))
			f.Len = 1
		}
		return out, f
	}
	switch k {
	case FTruncate:
		off, _ := pickOffset(t, s, marks, nil)
		if t.Chance(1, 3) && off+1 < len(s) {
			off++ // inside the item rather than at its start
		}
		f.Off = off
		out = out[:off]
	case FFlipBit:
		off, _ := pickOffset(t, s, marks, nil)
		f.Off = off
		bit := uint(t.Intn(8))
		out[off] ^= 1 << bit
		f.Note = fmt.Sprintf("bit %d", bit)
	case FSetByte:
		off, _ := pickOffset(t, s, marks, nil)
		f.Off = off
		b := s[off]
		var nb byte
		switch t.Intn(8) {
		case 0:
			nb = 0
		case 1:
			nb = 0xff
		case 2:
			nb = ^b
		case 3:
			nb = b + 1
		case 4:
			nb = b - 1
		case 5:
			nb = b ^ 0x80
		case 6:
			nb = b ^ 2
		default:
			nb = byte(t.Intn(256))
		}
		out[off] = nb
		f.Note = fmt.Sprintf("%02x->%02x", b, nb)
	case FZeroRange, FDropRange, FDupRange:
		off, _ := pickOffset(t, s, marks, nil)
		n := 1 + t.Intn(8)
		if t.Chance(1, 5) {
			n = 1 + t.Intn(64)
		}
		if off+n > len(s) {
			n = len(s) - off
		}
		f.Off, f.Len = off, n
		switch k {
		case FZeroRange:
			for i := off; i < off+n; i++ {
				out[i] = 0
			}
		case FDropRange:
			out = append(out[:off], out[off+n:]...)
		default:
			out = append(append(append([]byte(nil), s[:off+n]...), s[off:off+n]...), s[off+n:]...)
		}
	case FSplice:
		off, _ := pickOffset(t, s, marks, func(k MarkKind) bool { return k == MarkOpcode || k == MarkBody })
		f.Off = off
		if len(other) > 5 {
			a := 5 + t.Intn(len(other)-5)
			n := 1 + t.Intn(24)
			if a+n > len(other) {
				n = len(other) - a
			}
			f.Len = n
			if t.Bool() { // overwrite
				out = append(append(append([]byte(nil), s[:off]...), other[a:a+n]...), s[min(off+n, len(s)):]...)
				f.Note = "overwrite"
			} else {
				out = append(append(append([]byte(nil), s[:off]...), other[a:a+n]...), s[off:]...)
				f.Note = "insert"
			}
		}
	case FFraming:
		off, mk := pickOffset(t, s, marks, func(k MarkKind) bool { return k == MarkFraming })
		if mk == nil || mk.Kind != MarkFraming {
			off = 4
			if off >= len(s) {
				off = len(s) - 1
			}
		}
		f.Off = off
		// width of the natural that is there now
		oldW := 1
		if s[off]&1 == 1 {
			oldW = 2
			if s[off]&2 == 2 {
				oldW = 4
			}
		}
		if off+oldW > len(s) {
			oldW = len(s) - off
		}
		v := framingVals[t.Intn(len(framingVals))]
		if t.Chance(1, 3) { // current value +-1
			cur := uint32(0)
			switch oldW {
			case 1:
				cur = uint32(s[off]) >> 1
			case 2:
				cur = (uint32(s[off]) | uint32(s[off+1])<<8) >> 2
			}
			if t.Bool() {
				v = cur + 1
			} else if cur > 0 {
				v = cur - 1
			}
		}
		w := 1 << uint(t.Intn(3)) // 1, 2 or 4 bytes
		var enc Foreign
		enc.Natural(v, w)
		out = append(append(append([]byte(nil), s[:off]...), enc.B...), s[off+oldW:]...)
		f.Len = w
		f.Note = fmt.Sprintf("natural %d in %d bytes (was %d bytes)", v, w, oldW)
	case FOperand:
		off, mk := pickOffset(t, s, marks, func(k MarkKind) bool { return k == MarkOperand || k == MarkRepeat || k == MarkArc })
		f.Off = off
		oldW := 1
		if mk != nil && mk.Len > 0 {
			oldW = mk.Len
		}
		if off+oldW > len(s) {
			oldW = len(s) - off
		}
		bits := weird[t.Intn(len(weird))]
		var enc Foreign
		enc.Float4(math.Float32frombits(bits))
		out = append(append(append([]byte(nil), s[:off]...), enc.B...), s[off+oldW:]...)
		f.Len = 4
		f.Note = fmt.Sprintf("float bits %08x", bits)
	case FGarbageTail:
		n := 1 + t.Intn(16)
		r := t.Sub()
		f.Off, f.Len = len(s), n
		for i := 0; i < n; i++ {
			out = append(out, byte(r.Next()))
		}
	}
	return out, f
}

func min(a, b int) int {
	if a < b {
		return a
	}
	return b
}
