package world

import (
	"fmt"
	"go/ast"
	"go/parser"
	"go/token"
	"os"
	"path/filepath"
	"sort"
	"strconv"
)

// File is one stored graphic.
type File struct {
	Name string
	Data []byte
}

// RepoDir is the tree under test (set by main from VERIF_REPO).
var RepoDir = "/repo"

// LoadCorpus reads testdata/*.ivg and the Material Design set, which lives as
// Go byte-slice literals in cmd/mdicons/test/data.go; the literals are read
// with go/parser at run time so that the corpus is whatever the tree holds.
func LoadCorpus() ([]File, error) {
	var out []File
	names, err := filepath.Glob(filepath.Join(RepoDir, "testdata", "*.ivg"))
	if err != nil {
		return nil, err
	}
	sort.Strings(names)
	for _, n := range names {
		b, err := os.ReadFile(n)
		if err != nil {
			return nil, err
		}
		out = append(out, File{Name: "testdata/" + filepath.Base(n), Data: b})
	}
	src := filepath.Join(RepoDir, "cmd", "mdicons", "test", "data.go")
	fset := token.NewFileSet()
	f, err := parser.ParseFile(fset, src, nil, 0)
	if err != nil {
		// the Material Design set is optional: a tree without it still has testdata
		if len(out) == 0 {
			return nil, err
		}
		return out, nil
	}
	for _, d := range f.Decls {
		gd, ok := d.(*ast.GenDecl)
		if !ok || gd.Tok != token.VAR {
			continue
		}
		for _, sp := range gd.Specs {
			vs, ok := sp.(*ast.ValueSpec)
			if !ok || len(vs.Names) != 1 || len(vs.Values) != 1 {
				continue
			}
			cl, ok := vs.Values[0].(*ast.CompositeLit)
			if !ok {
				continue
			}
			at, ok := cl.Type.(*ast.ArrayType)
			if !ok || at.Len != nil {
				continue
			}
			if id, ok := at.Elt.(*ast.Ident); !ok || id.Name != "byte" {
				continue
			}
			data := make([]byte, 0, len(cl.Elts))
			good := true
			for _, e := range cl.Elts {
				bl, ok := e.(*ast.BasicLit)
				if !ok || bl.Kind != token.INT {
					good = false
					break
				}
				v, err := strconv.ParseUint(bl.Value, 0, 8)
				if err != nil {
					good = false
					break
				}
				data = append(data, byte(v))
			}
			if good && len(data) > 0 {
				out = append(out, File{Name: "mdicons/" + vs.Names[0].Name, Data: data})
			}
		}
	}
	if len(out) == 0 {
		return nil, fmt.Errorf("empty corpus under %s", RepoDir)
	}
	return out, nil
}
