// Package world holds everything around the code under test: the abstract
// programs that drive the ivg.Destination seam, the recording Destination
// and Rasterizer that sit behind it, the stored byte files and the fault
// injector that acts on them, and the comparators used by the oracles.
package world

import (
	"fmt"
	"image/color"
	"math"
	"strings"

	"github.com/reactivego/ivg"
	"github.com/reactivego/ivg/generate"
)

// Kind names one event on the Destination seam.
type Kind uint8

const (
	KReset Kind = iota
	KSetCSel
	KSetNSel
	KSetCReg
	KSetNReg
	KSetLOD
	KStartPath
	KClosePathEndPath
	KClosePathAbsMoveTo
	KClosePathRelMoveTo
	KAbsHLineTo
	KRelHLineTo
	KAbsVLineTo
	KRelVLineTo
	KAbsLineTo
	KRelLineTo
	KAbsSmoothQuadTo
	KRelSmoothQuadTo
	KAbsQuadTo
	KRelQuadTo
	KAbsSmoothCubeTo
	KRelSmoothCubeTo
	KAbsCubeTo
	KRelCubeTo
	KAbsArcTo
	KRelArcTo
	// observers
	KCSel
	KNSel
	nBaseKinds

	// Abstract producer steps: they react to what they read back from the
	// Destination, so the concrete calls they make depend on its state.
	KReadBackC  // SetCSel(CSel()+U)
	KReadBackN  // SetNSel(NSel()+U)
	KGradLinear // generate.Generator.SetLinearGradient(F[0..3], Spread, Stops)
	KGradCircular
	KGradElliptical
	KGradRaw  // generate.Generator.SetGradient(shape U, Spread, Stops, F as Aff3)
	KPathData // generate.Generator.SetPathData(S, U)
	KMDPath   // mdicons.ParsePathData(dst, S, U, 48, {0,0}, 48); ClosePathEndPath
	KMDIcon   // mdicons.ParsePath(dst, &Path{D: S, Opacity: F[0]}, adjs, 48, {0,0}, 48, one circle F[1..3] when F[3] != 0)
	KSetHiRes // Encoder only: set HighResolutionCoordinates = Incr (no-op elsewhere)
	KBytes    // Encoder only: Bytes() probe (no-op elsewhere)
	KLOD      // Encoder only: LOD() probe
	nAllKinds
)

var kindNames = [...]string{
	KReset: "Reset", KSetCSel: "SetCSel", KSetNSel: "SetNSel", KSetCReg: "SetCReg", KSetNReg: "SetNReg",
	KSetLOD: "SetLOD", KStartPath: "StartPath", KClosePathEndPath: "ClosePathEndPath",
	KClosePathAbsMoveTo: "ClosePathAbsMoveTo", KClosePathRelMoveTo: "ClosePathRelMoveTo",
	KAbsHLineTo: "AbsHLineTo", KRelHLineTo: "RelHLineTo", KAbsVLineTo: "AbsVLineTo", KRelVLineTo: "RelVLineTo",
	KAbsLineTo: "AbsLineTo", KRelLineTo: "RelLineTo", KAbsSmoothQuadTo: "AbsSmoothQuadTo",
	KRelSmoothQuadTo: "RelSmoothQuadTo", KAbsQuadTo: "AbsQuadTo", KRelQuadTo: "RelQuadTo",
	KAbsSmoothCubeTo: "AbsSmoothCubeTo", KRelSmoothCubeTo: "RelSmoothCubeTo", KAbsCubeTo: "AbsCubeTo",
	KRelCubeTo: "RelCubeTo", KAbsArcTo: "AbsArcTo", KRelArcTo: "RelArcTo", KCSel: "CSel", KNSel: "NSel",
	nBaseKinds: "?", KReadBackC: "ReadBackCSel", KReadBackN: "ReadBackNSel", KGradLinear: "SetLinearGradient",
	KGradCircular: "SetCircularGradient", KGradElliptical: "SetEllipticalGradient", KGradRaw: "SetGradient",
	KPathData: "SetPathData", KMDPath: "ParsePathData", KMDIcon: "mdicons.ParsePath", KSetHiRes: "HighResolutionCoordinates=",
	KBytes: "Bytes", KLOD: "LOD",
}

func (k Kind) String() string {
	if int(k) < len(kindNames) && kindNames[k] != "" {
		return kindNames[k]
	}
	return fmt.Sprintf("Kind(%d)", uint8(k))
}

// NArgs is the number of float32 arguments of a base kind (arcs: 5, with the
// two flags carried separately).
func (k Kind) NArgs() int {
	switch k {
	case KSetNReg, KAbsHLineTo, KRelHLineTo, KAbsVLineTo, KRelVLineTo:
		return 1
	case KSetLOD, KStartPath, KClosePathAbsMoveTo, KClosePathRelMoveTo, KAbsLineTo, KRelLineTo,
		KAbsSmoothQuadTo, KRelSmoothQuadTo:
		return 2
	case KAbsQuadTo, KRelQuadTo, KAbsSmoothCubeTo, KRelSmoothCubeTo:
		return 4
	case KAbsCubeTo, KRelCubeTo:
		return 6
	case KAbsArcTo, KRelArcTo:
		return 5
	}
	return 0
}

// IsDraw reports whether k is legal only inside a path.
func (k Kind) IsDraw() bool { return k >= KClosePathEndPath && k <= KRelArcTo }

// IsStyling reports whether k is legal only outside a path (StartPath included).
func (k Kind) IsStyling() bool { return k >= KSetCSel && k <= KStartPath }

// Op is one event: a Destination call (also the unit of a recorded call log)
// or an abstract producer step.
type Op struct {
	K      Kind
	U      uint8 // selector value / adj / shape
	Incr   bool
	C      ivg.Color
	F      [6]float32 // arcs: rx, ry, angle, x, y in F[0..4]
	LA, SW bool
	VB     ivg.ViewBox
	Pal    *[64]color.RGBA
	Spread uint8
	Stops  []generate.GradientStop
	S      string
}

func fbits(f float32) uint32 { return math.Float32bits(f) }

// SameCall reports whether two recorded calls are identical, comparing
// numbers by their bits (so NaN equals the same NaN and -0 differs from +0).
// colour environments for SameColor: 2 x (palette, registers) with 256
// pairwise different entries
var colorEnv = func() (e [2][2][64]color.RGBA) {
	for k := 0; k < 2; k++ {
		for j := 0; j < 2; j++ {
			for i := 0; i < 64; i++ {
				x := uint32(k*128+j*64+i)*2654435761 + 12345
				e[k][j][i] = color.RGBA{uint8(x >> 24), uint8(x >> 16), uint8(x >> 8), 0xff}
			}
		}
	}
	return
}()

// SameColor reports whether two ivg.Color values denote the same colour
// expression. Identical values do; otherwise what counts is what they
// resolve to (two environments in which every palette entry and every
// register holds a different colour), not how the library lays a Color out
// internally (an index may be kept reduced modulo 64 or not).
func SameColor(a, b ivg.Color) bool {
	if a == b {
		return true
	}
	for k := range colorEnv {
		if a.Resolve(&colorEnv[k][0], &colorEnv[k][1]) != b.Resolve(&colorEnv[k][0], &colorEnv[k][1]) {
			return false
		}
	}
	ra, oka := a.RGBA()
	rb, okb := b.RGBA()
	return oka == okb && ra == rb
}

func SameCall(a, b *Op) bool {
	if a.K != b.K || a.U != b.U || a.Incr != b.Incr || !SameColor(a.C, b.C) || a.LA != b.LA || a.SW != b.SW {
		return false
	}
	for i := range a.F {
		if fbits(a.F[i]) != fbits(b.F[i]) {
			return false
		}
	}
	if a.K == KReset {
		if fbits(a.VB.MinX) != fbits(b.VB.MinX) || fbits(a.VB.MinY) != fbits(b.VB.MinY) ||
			fbits(a.VB.MaxX) != fbits(b.VB.MaxX) || fbits(a.VB.MaxY) != fbits(b.VB.MaxY) {
			return false
		}
		if (a.Pal == nil) != (b.Pal == nil) {
			return false
		}
		if a.Pal != nil && *a.Pal != *b.Pal {
			return false
		}
	}
	return true
}

// FirstCallDiff returns the first index at which two call logs differ, or -1.
func FirstCallDiff(a, b []Op) int {
	n := len(a)
	if len(b) < n {
		n = len(b)
	}
	for i := 0; i < n; i++ {
		if !SameCall(&a[i], &b[i]) {
			return i
		}
	}
	if len(a) != len(b) {
		return n
	}
	return -1
}

// IsCallPrefix reports whether p is a prefix of whole (bit-exact).
func IsCallPrefix(p, whole []Op) (bool, int) {
	if len(p) > len(whole) {
		return false, len(whole)
	}
	for i := range p {
		if !SameCall(&p[i], &whole[i]) {
			return false, i
		}
	}
	return true, -1
}

func fstr(f float32) string {
	if f == float32(int32(f)) && f > -1e6 && f < 1e6 {
		return fmt.Sprintf("%d", int32(f))
	}
	return fmt.Sprintf("%g(0x%08x)", f, fbits(f))
}

func (o Op) String() string {
	var sb strings.Builder
	sb.WriteString(o.K.String())
	switch o.K {
	case KReset:
		np := 0
		if o.Pal != nil {
			for i, c := range o.Pal {
				if c != (color.RGBA{0, 0, 0, 0xff}) {
					np++
					if np <= 3 {
						fmt.Fprintf(&sb, " pal[%d]=%02x%02x%02x%02x", i, c.R, c.G, c.B, c.A)
					}
				}
			}
		}
		fmt.Fprintf(&sb, " vb=(%s,%s,%s,%s) custom=%d", fstr(o.VB.MinX), fstr(o.VB.MinY), fstr(o.VB.MaxX), fstr(o.VB.MaxY), np)
	case KSetCSel, KSetNSel, KReadBackC, KReadBackN:
		fmt.Fprintf(&sb, "(%d)", o.U)
	case KSetCReg:
		fmt.Fprintf(&sb, "(adj=%d incr=%t %v)", o.U, o.Incr, o.C)
	case KSetNReg:
		fmt.Fprintf(&sb, "(adj=%d incr=%t %s)", o.U, o.Incr, fstr(o.F[0]))
	case KStartPath:
		fmt.Fprintf(&sb, "(adj=%d %s %s)", o.U, fstr(o.F[0]), fstr(o.F[1]))
	case KAbsArcTo, KRelArcTo:
		fmt.Fprintf(&sb, "(%s %s rot=%s la=%t sw=%t %s %s)", fstr(o.F[0]), fstr(o.F[1]), fstr(o.F[2]), o.LA, o.SW, fstr(o.F[3]), fstr(o.F[4]))
	case KGradLinear, KGradCircular, KGradElliptical, KGradRaw:
		fmt.Fprintf(&sb, "(shape=%d spread=%d nstops=%d", o.U, o.Spread, len(o.Stops))
		for _, f := range o.F {
			sb.WriteString(" " + fstr(f))
		}
		sb.WriteString(")")
	case KMDIcon:
		fmt.Fprintf(&sb, "(%q opacity=%s circle=(%s %s r=%s))", o.S, fstr(o.F[0]), fstr(o.F[1]), fstr(o.F[2]), fstr(o.F[3]))
	case KPathData, KMDPath:
		fmt.Fprintf(&sb, "(%q adj=%d)", o.S, o.U)
		if o.F[0] != 0 {
			fmt.Fprintf(&sb, " transform(scale %s, translate %s %s)", fstr(o.F[0]), fstr(o.F[1]), fstr(o.F[2]))
		}
	case KSetHiRes:
		fmt.Fprintf(&sb, "%t", o.Incr)
	default:
		n := o.K.NArgs()
		if n > 0 {
			sb.WriteString("(")
			for i := 0; i < n; i++ {
				if i > 0 {
					sb.WriteString(" ")
				}
				sb.WriteString(fstr(o.F[i]))
			}
			sb.WriteString(")")
		}
	}
	return sb.String()
}

// FormatOps renders a program or call log for traces, eliding the middle of
// long ones.
func FormatOps(ops []Op, max int) []string {
	out := make([]string, 0, len(ops))
	for i, o := range ops {
		if max > 0 && len(ops) > max && i >= max/2 && i < len(ops)-max/2 {
			if i == max/2 {
				out = append(out, fmt.Sprintf("… %d more …", len(ops)-max))
			}
			continue
		}
		out = append(out, fmt.Sprintf("%d %s", i, o.String()))
	}
	return out
}

// ApplyBase performs one base-kind call on dst. Observers return their value.
func ApplyBase(dst ivg.Destination, o *Op) uint8 {
	f := &o.F
	switch o.K {
	case KReset:
		p := ivg.DefaultPalette
		if o.Pal != nil {
			p = *o.Pal
		}
		dst.Reset(o.VB, p)
	case KSetCSel:
		dst.SetCSel(o.U)
	case KSetNSel:
		dst.SetNSel(o.U)
	case KSetCReg:
		dst.SetCReg(o.U, o.Incr, o.C)
	case KSetNReg:
		dst.SetNReg(o.U, o.Incr, f[0])
	case KSetLOD:
		dst.SetLOD(f[0], f[1])
	case KStartPath:
		dst.StartPath(o.U, f[0], f[1])
	case KClosePathEndPath:
		dst.ClosePathEndPath()
	case KClosePathAbsMoveTo:
		dst.ClosePathAbsMoveTo(f[0], f[1])
	case KClosePathRelMoveTo:
		dst.ClosePathRelMoveTo(f[0], f[1])
	case KAbsHLineTo:
		dst.AbsHLineTo(f[0])
	case KRelHLineTo:
		dst.RelHLineTo(f[0])
	case KAbsVLineTo:
		dst.AbsVLineTo(f[0])
	case KRelVLineTo:
		dst.RelVLineTo(f[0])
	case KAbsLineTo:
		dst.AbsLineTo(f[0], f[1])
	case KRelLineTo:
		dst.RelLineTo(f[0], f[1])
	case KAbsSmoothQuadTo:
		dst.AbsSmoothQuadTo(f[0], f[1])
	case KRelSmoothQuadTo:
		dst.RelSmoothQuadTo(f[0], f[1])
	case KAbsQuadTo:
		dst.AbsQuadTo(f[0], f[1], f[2], f[3])
	case KRelQuadTo:
		dst.RelQuadTo(f[0], f[1], f[2], f[3])
	case KAbsSmoothCubeTo:
		dst.AbsSmoothCubeTo(f[0], f[1], f[2], f[3])
	case KRelSmoothCubeTo:
		dst.RelSmoothCubeTo(f[0], f[1], f[2], f[3])
	case KAbsCubeTo:
		dst.AbsCubeTo(f[0], f[1], f[2], f[3], f[4], f[5])
	case KRelCubeTo:
		dst.RelCubeTo(f[0], f[1], f[2], f[3], f[4], f[5])
	case KAbsArcTo:
		dst.AbsArcTo(f[0], f[1], f[2], o.LA, o.SW, f[3], f[4])
	case KRelArcTo:
		dst.RelArcTo(f[0], f[1], f[2], o.LA, o.SW, f[3], f[4])
	case KCSel:
		return dst.CSel()
	case KNSel:
		return dst.NSel()
	}
	return 0
}
