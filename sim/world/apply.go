package world

import (
	"github.com/reactivego/ivg"
	"github.com/reactivego/ivg/encode"
	"github.com/reactivego/ivg/generate"
	"github.com/reactivego/ivg/mdicons"
	"golang.org/x/image/math/f32"
)

// Target is one party on the receiving side of the Destination seam. Enc is
// set when the party is (or wraps) an Encoder, so that Encoder-only steps
// (resolution flag, Bytes/LOD probes) can reach it through a logger.
type Target struct {
	Dst ivg.Destination
	Enc *encode.Encoder
	// Adjs is the Material Design converter's opacity -> ADJ map of this
	// party's icon (the converter keeps one per icon across its paths).
	Adjs map[float32]uint8
}

// StepResult is what a producer observes from one step.
type StepResult struct {
	Ret   uint8  // CSel/NSel observers
	Err   string // helper error text ("" = nil)
	Bytes []byte // KBytes probe: copy of the result
	BErr  error  // KBytes probe
	LOD   [2]float32
}

// Apply performs one step of a program on a target. It is the only place
// where programs touch the code under test.
func Apply(t Target, o *Op) (res StepResult) {
	if o.K < nBaseKinds {
		res.Ret = ApplyBase(t.Dst, o)
		return
	}
	switch o.K {
	case KReadBackC:
		t.Dst.SetCSel(t.Dst.CSel() + o.U)
	case KReadBackN:
		t.Dst.SetNSel(t.Dst.NSel() + o.U)
	case KGradLinear, KGradCircular, KGradElliptical, KGradRaw:
		var g generate.Generator
		g.SetDestination(t.Dst)
		var err error
		f := &o.F
		switch o.K {
		case KGradLinear:
			err = g.SetLinearGradient(f[0], f[1], f[2], f[3], generate.GradientSpread(o.Spread), o.Stops)
		case KGradCircular:
			err = g.SetCircularGradient(f[0], f[1], f[2], f[3], generate.GradientSpread(o.Spread), o.Stops)
		case KGradElliptical:
			err = g.SetEllipticalGradient(f[0], f[1], f[2], f[3], f[4], f[5], generate.GradientSpread(o.Spread), o.Stops)
		case KGradRaw:
			err = g.SetGradient(generate.GradientShape(o.U&1), generate.GradientSpread(o.Spread), o.Stops, generate.Aff3(o.F))
		}
		if err != nil {
			res.Err = err.Error()
		}
	case KPathData:
		var g generate.Generator
		g.SetDestination(t.Dst)
		if o.F[0] != 0 {
			// a power-of-two scale and a lattice translation keep every
			// coordinate on the lattice
			g.SetTransform(generate.Scale(o.F[0]), generate.Translate(o.F[1], o.F[2]))
		}
		if err := g.SetPathData(o.S, o.U); err != nil {
			res.Err = err.Error()
		}
	case KMDPath:
		if err := mdicons.ParsePathData(t.Dst, o.S, o.U, 48, f32.Vec2{0, 0}, 48); err != nil {
			res.Err = err.Error()
		}
		t.Dst.ClosePathEndPath()
	case KMDIcon:
		adjs := t.Adjs
		if adjs == nil {
			adjs = map[float32]uint8{}
		}
		op := o.F[0]
		path := &mdicons.Path{D: o.S, Opacity: &op}
		var circles []mdicons.Circle
		if o.F[3] != 0 {
			circles = []mdicons.Circle{{Cx: o.F[1], Cy: o.F[2], R: o.F[3]}}
		}
		if err := mdicons.ParsePath(t.Dst, path, adjs, 48, f32.Vec2{0, 0}, 48, circles); err != nil {
			res.Err = err.Error()
		}
	case KSetHiRes:
		if t.Enc != nil {
			t.Enc.HighResolutionCoordinates = o.Incr
		}
	case KBytes:
		if t.Enc != nil {
			b, err := t.Enc.Bytes()
			res.Bytes = append([]byte(nil), b...)
			res.BErr = err
		}
	case KLOD:
		if t.Enc != nil {
			res.LOD[0], res.LOD[1] = t.Enc.LOD()
		}
	}
	return
}

// Run applies a whole program.
func Run(t Target, prog []Op) {
	for i := range prog {
		Apply(t, &prog[i])
	}
}
