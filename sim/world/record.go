package world

import (
	"fmt"
	"image"
	"image/color"
	"math"

	"github.com/reactivego/ivg"
	"github.com/reactivego/ivg/raster"
)

// RecDest is the recording Destination: a plain call log. Its CSel/NSel are
// the selector half of the decoding machine written from the format text:
// selectors are 6 bits wide, SetCSel/SetNSel store the low 6 bits, an
// incrementing register write adds one modulo 64, Reset zeroes both.
type RecDest struct {
	Calls      []Op
	cSel, nSel uint8
	// OnCall, when set, runs before each call is logged (C02 uses it as a
	// progress beacon and to stop runaway logs).
	OnCall func()
}

func (r *RecDest) log(o Op) {
	if r.OnCall != nil {
		r.OnCall()
	}
	r.Calls = append(r.Calls, o)
}

func (r *RecDest) Reset(vb ivg.ViewBox, p [64]color.RGBA) {
	r.cSel, r.nSel = 0, 0
	pp := p
	r.log(Op{K: KReset, VB: vb, Pal: &pp})
}
func (r *RecDest) CSel() uint8     { return r.cSel }
func (r *RecDest) NSel() uint8     { return r.nSel }
func (r *RecDest) SetCSel(c uint8) { r.cSel = c & 63; r.log(Op{K: KSetCSel, U: c}) }
func (r *RecDest) SetNSel(n uint8) { r.nSel = n & 63; r.log(Op{K: KSetNSel, U: n}) }
func (r *RecDest) SetCReg(adj uint8, incr bool, c ivg.Color) {
	if incr {
		r.cSel = (r.cSel + 1) & 63
	}
	r.log(Op{K: KSetCReg, U: adj, Incr: incr, C: c})
}
func (r *RecDest) SetNReg(adj uint8, incr bool, f float32) {
	if incr {
		r.nSel = (r.nSel + 1) & 63
	}
	r.log(Op{K: KSetNReg, U: adj, Incr: incr, F: [6]float32{f}})
}
func (r *RecDest) SetLOD(a, b float32) { r.log(Op{K: KSetLOD, F: [6]float32{a, b}}) }
func (r *RecDest) StartPath(adj uint8, x, y float32) {
	r.log(Op{K: KStartPath, U: adj, F: [6]float32{x, y}})
}
func (r *RecDest) ClosePathEndPath() { r.log(Op{K: KClosePathEndPath}) }
func (r *RecDest) ClosePathAbsMoveTo(x, y float32) {
	r.log(Op{K: KClosePathAbsMoveTo, F: [6]float32{x, y}})
}
func (r *RecDest) ClosePathRelMoveTo(x, y float32) {
	r.log(Op{K: KClosePathRelMoveTo, F: [6]float32{x, y}})
}
func (r *RecDest) AbsHLineTo(x float32)   { r.log(Op{K: KAbsHLineTo, F: [6]float32{x}}) }
func (r *RecDest) RelHLineTo(x float32)   { r.log(Op{K: KRelHLineTo, F: [6]float32{x}}) }
func (r *RecDest) AbsVLineTo(y float32)   { r.log(Op{K: KAbsVLineTo, F: [6]float32{y}}) }
func (r *RecDest) RelVLineTo(y float32)   { r.log(Op{K: KRelVLineTo, F: [6]float32{y}}) }
func (r *RecDest) AbsLineTo(x, y float32) { r.log(Op{K: KAbsLineTo, F: [6]float32{x, y}}) }
func (r *RecDest) RelLineTo(x, y float32) { r.log(Op{K: KRelLineTo, F: [6]float32{x, y}}) }
func (r *RecDest) AbsSmoothQuadTo(x, y float32) {
	r.log(Op{K: KAbsSmoothQuadTo, F: [6]float32{x, y}})
}
func (r *RecDest) RelSmoothQuadTo(x, y float32) {
	r.log(Op{K: KRelSmoothQuadTo, F: [6]float32{x, y}})
}
func (r *RecDest) AbsQuadTo(a, b, c, d float32) { r.log(Op{K: KAbsQuadTo, F: [6]float32{a, b, c, d}}) }
func (r *RecDest) RelQuadTo(a, b, c, d float32) { r.log(Op{K: KRelQuadTo, F: [6]float32{a, b, c, d}}) }
func (r *RecDest) AbsSmoothCubeTo(a, b, c, d float32) {
	r.log(Op{K: KAbsSmoothCubeTo, F: [6]float32{a, b, c, d}})
}
func (r *RecDest) RelSmoothCubeTo(a, b, c, d float32) {
	r.log(Op{K: KRelSmoothCubeTo, F: [6]float32{a, b, c, d}})
}
func (r *RecDest) AbsCubeTo(a, b, c, d, e, f float32) {
	r.log(Op{K: KAbsCubeTo, F: [6]float32{a, b, c, d, e, f}})
}
func (r *RecDest) RelCubeTo(a, b, c, d, e, f float32) {
	r.log(Op{K: KRelCubeTo, F: [6]float32{a, b, c, d, e, f}})
}
func (r *RecDest) AbsArcTo(rx, ry, rot float32, la, sw bool, x, y float32) {
	r.log(Op{K: KAbsArcTo, F: [6]float32{rx, ry, rot, x, y}, LA: la, SW: sw})
}
func (r *RecDest) RelArcTo(rx, ry, rot float32, la, sw bool, x, y float32) {
	r.log(Op{K: KRelArcTo, F: [6]float32{rx, ry, rot, x, y}, LA: la, SW: sw})
}

var _ ivg.Destination = (*RecDest)(nil)

// ---------------------------------------------------------------------------

// RKind names one mutating call on the Rasterizer seam.
type RKind uint8

const (
	RReset RKind = iota
	RMoveTo
	RLineTo
	RQuadTo
	RCubeTo
	RClosePath
	RDraw
)

var rkindNames = [...]string{"Reset", "MoveTo", "LineTo", "QuadTo", "CubeTo", "ClosePath", "Draw"}

func (k RKind) String() string { return rkindNames[k] }

// PaintSnap is a by-value snapshot of the image handed to Draw (the Renderer
// reuses its paint objects, so a pointer would alias later paints).
type PaintSnap struct {
	Kind        string // "nil", "uniform", "gradient", "other"
	Uniform     color.RGBA64
	Shape       int
	Spread      int
	StopColors  []color.RGBA
	StopOffsets []float64
	Xf          [6]float64
	Probe       []color.RGBA64 // At() at fixed probe pixels
}

// The probe sequence ends on the row and on the column on which it begins:
// a paint that caches something per row (or per column) across calls then
// carries it from the last probe of one paint into the first probe of the
// next one, which is where a stale cache shows.
var probePts = func() []image.Point {
	pts := []image.Point{{0, 0}, {1, 0}, {0, 1}, {7, 5}, {16, 16}, {31, 2}, {-3, 9}, {200, -100}, {0, 3}, {5, 0}, {0, 0}}
	// a coarse grid over the usual rectangles, row by row and then column by
	// column, so that a paint that is wrong only in part of the plane, or
	// only when scanned in one direction, is seen as well
	for y := 0; y < 35; y += 7 {
		for x := 0; x < 35; x += 7 {
			pts = append(pts, image.Point{X: x, Y: y})
		}
	}
	for x := 3; x < 48; x += 11 {
		for y := 45; y >= 0; y -= 15 {
			pts = append(pts, image.Point{X: x, Y: y})
		}
	}
	return append(pts, image.Point{})
}()

func rgba64Of(c color.Color) color.RGBA64 {
	r, g, b, a := c.RGBA()
	return color.RGBA64{R: uint16(r), G: uint16(g), B: uint16(b), A: uint16(a)}
}

// SnapPaint copies everything observable about a paint.
func SnapPaint(src image.Image) PaintSnap {
	if src == nil {
		return PaintSnap{Kind: "nil"}
	}
	var p PaintSnap
	switch s := src.(type) {
	case *image.Uniform:
		p.Kind = "uniform"
		if s.C != nil {
			p.Uniform = rgba64Of(s.C)
		}
		return p
	case raster.GradientConfig:
		p.Kind = "gradient"
		p.Shape = s.GradientShape()
		p.Spread = s.SpreadMethod()
		p.StopColors = append([]color.RGBA(nil), s.StopColors()...)
		p.StopOffsets = append([]float64(nil), s.StopOffsets()...)
		p.Xf[0], p.Xf[1], p.Xf[2], p.Xf[3], p.Xf[4], p.Xf[5] = s.Transform()
	default:
		p.Kind = "other"
	}
	_ = src.Bounds()
	_ = src.ColorModel()
	for _, pt := range probePts {
		p.Probe = append(p.Probe, rgba64Of(src.At(pt.X, pt.Y)))
	}
	return p
}

// RastOp is one recorded rasteriser call.
type RastOp struct {
	K     RKind
	W, H  int
	F     [6]float32
	R     image.Rectangle
	SP    image.Point
	Paint PaintSnap
}

func (o RastOp) String() string {
	switch o.K {
	case RReset:
		return fmt.Sprintf("Reset(%d,%d)", o.W, o.H)
	case RClosePath:
		return "ClosePath"
	case RDraw:
		s := fmt.Sprintf("Draw(%v sp=%v %s", o.R, o.SP, o.Paint.Kind)
		switch o.Paint.Kind {
		case "uniform":
			s += fmt.Sprintf(" %04x%04x%04x%04x", o.Paint.Uniform.R, o.Paint.Uniform.G, o.Paint.Uniform.B, o.Paint.Uniform.A)
		case "gradient":
			s += fmt.Sprintf(" shape=%d spread=%d stops=%v@%v xf=%v", o.Paint.Shape, o.Paint.Spread, o.Paint.StopColors, o.Paint.StopOffsets, o.Paint.Xf)
		}
		return s + ")"
	}
	n := map[RKind]int{RMoveTo: 2, RLineTo: 2, RQuadTo: 4, RCubeTo: 6}[o.K]
	s := o.K.String() + "("
	for i := 0; i < n; i++ {
		if i > 0 {
			s += " "
		}
		s += fstr(o.F[i])
	}
	return s + ")"
}

// RecRaster is the recording Rasterizer. Its pen follows the semantics of
// golang.org/x/image/vector (read from its source): Reset puts pen and
// first at (0,0); MoveTo sets both; LineTo/QuadTo/CubeTo move the pen to the
// end point; ClosePath returns the pen to first.
type RecRaster struct {
	Ops                        []RastOp
	w, h                       int
	penX, penY, firstX, firstY float32
	// OnOp, when set, runs before each mutating call is logged.
	OnOp func(RKind)
	// NoSnap disables paint snapshots (C02 pokes paints itself).
	NoSnap bool
	// CountOnly: calls are counted in N and not logged (very long inputs).
	CountOnly bool
	N         int
}

func (z *RecRaster) log(op RastOp) {
	z.N++
	if !z.CountOnly {
		z.Ops = append(z.Ops, op)
	}
}

func (z *RecRaster) note(k RKind) {
	if z.OnOp != nil {
		z.OnOp(k)
	}
}

func (z *RecRaster) Reset(w, h int) {
	z.note(RReset)
	z.w, z.h = w, h
	z.penX, z.penY, z.firstX, z.firstY = 0, 0, 0, 0
	z.log(RastOp{K: RReset, W: w, H: h})
}
func (z *RecRaster) Size() image.Point       { return image.Point{z.w, z.h} }
func (z *RecRaster) Bounds() image.Rectangle { return image.Rect(0, 0, z.w, z.h) }
func (z *RecRaster) Pen() (x, y float32)     { return z.penX, z.penY }
func (z *RecRaster) MoveTo(ax, ay float32) {
	z.note(RMoveTo)
	z.penX, z.penY, z.firstX, z.firstY = ax, ay, ax, ay
	z.log(RastOp{K: RMoveTo, F: [6]float32{ax, ay}})
}
func (z *RecRaster) LineTo(bx, by float32) {
	z.note(RLineTo)
	z.penX, z.penY = bx, by
	z.log(RastOp{K: RLineTo, F: [6]float32{bx, by}})
}
func (z *RecRaster) QuadTo(bx, by, cx, cy float32) {
	z.note(RQuadTo)
	z.penX, z.penY = cx, cy
	z.log(RastOp{K: RQuadTo, F: [6]float32{bx, by, cx, cy}})
}
func (z *RecRaster) CubeTo(bx, by, cx, cy, dx, dy float32) {
	z.note(RCubeTo)
	z.penX, z.penY = dx, dy
	z.log(RastOp{K: RCubeTo, F: [6]float32{bx, by, cx, cy, dx, dy}})
}
func (z *RecRaster) ClosePath() {
	z.note(RClosePath)
	z.penX, z.penY = z.firstX, z.firstY
	z.log(RastOp{K: RClosePath})
}
func (z *RecRaster) Draw(r image.Rectangle, src image.Image, sp image.Point) {
	z.note(RDraw)
	op := RastOp{K: RDraw, R: r, SP: sp}
	if !z.NoSnap {
		op.Paint = SnapPaint(src)
	} else if src != nil {
		// still poke the paint: a corrupt file must not make it panic
		_ = src.Bounds()
		_ = src.ColorModel()
		_ = src.At(0, 0)
		_ = src.At(-5, 1<<20)
		if g, ok := src.(raster.GradientConfig); ok {
			_ = g.GradientShape()
			_ = g.SpreadMethod()
			_ = g.StopColors()
			_ = g.StopOffsets()
			g.Transform()
		}
	}
	z.log(op)
}

var _ raster.Rasterizer = (*RecRaster)(nil)

// ---------------------------------------------------------------------------

func f64bits(f float64) uint64 { return math.Float64bits(f) }

// SamePaintExact compares two paint snapshots bit for bit.
func SamePaintExact(a, b *PaintSnap) bool {
	if a.Kind != b.Kind || a.Uniform != b.Uniform || a.Shape != b.Shape || a.Spread != b.Spread {
		return false
	}
	if len(a.StopColors) != len(b.StopColors) || len(a.StopOffsets) != len(b.StopOffsets) || len(a.Probe) != len(b.Probe) {
		return false
	}
	for i := range a.StopColors {
		if a.StopColors[i] != b.StopColors[i] {
			return false
		}
	}
	for i := range a.StopOffsets {
		if f64bits(a.StopOffsets[i]) != f64bits(b.StopOffsets[i]) {
			return false
		}
	}
	for i := range a.Xf {
		if f64bits(a.Xf[i]) != f64bits(b.Xf[i]) {
			return false
		}
	}
	for i := range a.Probe {
		if a.Probe[i] != b.Probe[i] {
			return false
		}
	}
	return true
}

// SameRastOpExact compares two rasteriser calls bit for bit.
func SameRastOpExact(a, b *RastOp) bool {
	if a.K != b.K || a.W != b.W || a.H != b.H || a.R != b.R || a.SP != b.SP {
		return false
	}
	for i := range a.F {
		if fbits(a.F[i]) != fbits(b.F[i]) {
			return false
		}
	}
	if a.K == RDraw {
		return SamePaintExact(&a.Paint, &b.Paint)
	}
	return true
}

// FirstRastDiffExact returns the first index where two rasteriser logs
// differ bit for bit, or -1.
func FirstRastDiffExact(a, b []RastOp) int {
	n := len(a)
	if len(b) < n {
		n = len(b)
	}
	for i := 0; i < n; i++ {
		if !SameRastOpExact(&a[i], &b[i]) {
			return i
		}
	}
	if len(a) != len(b) {
		return n
	}
	return -1
}

// TameRaster stands between the Renderer and the real raster/vec back end
// and keeps golang.org/x/image/vector away from coordinates it cannot
// handle: it panics (integer divide by zero) or needs minutes on segments
// that are billions of pixels long, which even moderate drawing coordinates
// produce through chains of smooth curves (each implicit control point is a
// reflection of the previous one, so their magnitude can double per step).
// Once a coordinate beyond +-Limit (or a NaN) is seen, the segment and
// everything after it is withheld and Bad is set; what was withheld is still
// hashed, so two arms that are fed the same calls stay comparable.
type TameRaster struct {
	raster.Rasterizer
	Limit float32
	Bad   bool
	Hash  uint64
	Draws int // Draw calls passed on
}

func (z *TameRaster) Draw(r image.Rectangle, src image.Image, sp image.Point) {
	z.Draws++
	z.Rasterizer.Draw(r, src, sp)
}

func (z *TameRaster) ok(k RKind, f ...float32) bool {
	z.Hash = z.Hash*1099511628211 ^ uint64(k)
	for _, x := range f {
		z.Hash = z.Hash*1099511628211 ^ uint64(math.Float32bits(x))
		if !(x >= -z.Limit && x <= z.Limit) {
			z.Bad = true
		}
	}
	return !z.Bad
}

func (z *TameRaster) MoveTo(ax, ay float32) {
	if z.ok(RMoveTo, ax, ay) {
		z.Rasterizer.MoveTo(ax, ay)
	}
}
func (z *TameRaster) LineTo(bx, by float32) {
	if z.ok(RLineTo, bx, by) {
		z.Rasterizer.LineTo(bx, by)
	}
}
func (z *TameRaster) QuadTo(bx, by, cx, cy float32) {
	if z.ok(RQuadTo, bx, by, cx, cy) {
		z.Rasterizer.QuadTo(bx, by, cx, cy)
	}
}
func (z *TameRaster) CubeTo(bx, by, cx, cy, dx, dy float32) {
	if z.ok(RCubeTo, bx, by, cx, cy, dx, dy) {
		z.Rasterizer.CubeTo(bx, by, cx, cy, dx, dy)
	}
}
