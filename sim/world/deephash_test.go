package world

import (
	"sync"
	"testing"
)

type inner struct {
	a    int
	b    []byte
	m    map[string]*int
	mu   sync.Mutex
	next *inner
}

func TestDeepHashSeesNestedWrites(t *testing.T) {
	x := 7
	v := &inner{a: 1, b: []byte{1, 2, 3}, m: map[string]*int{"k": &x}, next: &inner{a: 2}}
	h0 := DeepHash(&v)
	if DeepHash(&v) != h0 {
		t.Fatal("hash not stable")
	}
	v.mu.Lock() // lock state is bookkeeping, not data
	if DeepHash(&v) != h0 {
		t.Fatal("hash depends on mutex state")
	}
	v.mu.Unlock()
	for name, f := range map[string]func(){
		"unexported int":    func() { v.a++ },
		"slice element":     func() { v.b[1] ^= 1 },
		"slice length":      func() { v.b = v.b[:2] },
		"value behind map":  func() { x++ },
		"map entry":         func() { v.m["j"] = &x },
		"through a pointer": func() { v.next.a++ },
	} {
		f()
		h := DeepHash(&v)
		if h == h0 {
			t.Fatalf("write to %s not seen", name)
		}
		h0 = h
	}
	if !ContainsSync(v) || ContainsSync(&x) {
		t.Fatal("ContainsSync wrong")
	}
}
