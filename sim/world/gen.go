package world

import (
	"fmt"
	"image/color"
	"math"
	"strconv"
	"strings"

	"github.com/reactivego/ivg"
	"github.com/reactivego/ivg/generate"

	"verif/sim/tape"
)

// All generated numbers lie on the dyadic lattice of the slot they are used
// in, so that a correct codec carries them exactly and no oracle needs a
// tolerance: coordinates are integers in [-64,64), k/64 in [-128,128) or (in
// high-resolution mode, or outside [-128,128)) floats with at most 21
// significant bits; angles are j/128 in [0,1); register numbers are integers,
// k/64 or j/16. Numbers off the lattice are a C01/C08 matter and are not
// judged by the simulator.

// LoCoord draws a coordinate that is exact at low resolution.
func LoCoord(t *tape.Tape) float32 {
	switch t.Pick(4, 6, 1, 1) {
	case 0:
		return float32(t.Range(-64, 63))
	case 1:
		return float32(t.Range(-8192, 8191)) / 64
	case 2:
		return 0
	default:
		v := 128 + float32(t.Intn(4000))/4
		if t.Bool() {
			v = -v
		}
		return v
	}
}

// HiCoord draws a coordinate that is exact only in the 4-byte form.
func HiCoord(t *tape.Tape) float32 {
	if t.Chance(1, 3) {
		return LoCoord(t)
	}
	m := t.Range(-(1<<20)+1, (1<<20)-1)
	e := t.Range(-14, -2)
	return float32(math.Ldexp(float64(m), e))
}

// OffCoord draws a coordinate that is NOT on the lattice: the codec must
// round it, and the oracles that see such values compare with the format's
// quantisation as tolerance. Half of the draws sit on the edges where a
// number changes its encoded form: just below +-128 (the end of the 2-byte
// form), around +-64 (the end of the 1-byte form), a hair off a multiple of
// 1/64, exactly between two multiples (ties), and the one or two floats just
// below a power of two (all fraction bits set, where rounding carries).
func OffCoord(t *tape.Tape) float32 {
	next := func(f float32, up bool) float32 {
		if up {
			return math.Nextafter32(f, float32(math.Inf(1)))
		}
		return math.Nextafter32(f, float32(math.Inf(-1)))
	}
	switch t.Pick(4, 3, 3, 3, 3, 4) {
	case 0:
		v := []float32{128, -128, 64, -64, 127.9921875, 127.99609375, -127.9921875, 63.9921875}[t.Intn(8)]
		switch t.Intn(4) {
		case 0:
			return next(v, false)
		case 1:
			return next(v, true)
		case 2:
			return next(next(v, false), false)
		}
		return v
	case 1:
		v := float32(t.Range(-8192, 8191)) / 64
		return next(v, t.Bool())
	case 2:
		return float32(t.Range(-8192, 8191))/64 + 1.0/128
	case 3:
		e := t.Range(-4, 11)
		v := float32(math.Ldexp(1, e))
		v = next(v, false)
		if t.Bool() {
			v = next(v, false)
		}
		if t.Bool() {
			v = -v
		}
		return v
	case 4:
		return float32(t.Range(-(1<<23)+1, (1<<23)-1)) / float32(int(1)<<uint(t.Range(9, 20)))
	default:
		// any float in about [-140, 140]
		return (float32(t.Intn(1<<24))/(1<<24) - 0.5) * 280
	}
}

// OffReal draws an off-lattice register/LOD number.
func OffReal(t *tape.Tape) float32 {
	switch t.Pick(2, 2, 1) {
	case 0:
		return OffCoord(t)
	case 1:
		return float32(t.Intn(1<<24)) / (1 << 24) // [0,1) with a full mantissa
	default:
		return float32(t.Intn(1<<20)) * 1.1
	}
}

// Angle draws an arc rotation in [0,1) as j/128.
func Angle(t *tape.Tape) float32 { return float32(t.Intn(128)) / 128 }

// NRegVal draws a number-register value.
func NRegVal(t *tape.Tape) float32 {
	switch t.Pick(3, 2, 3, 3, 1) {
	case 0:
		return float32(t.Intn(128))
	case 1:
		return float32(t.Intn(16384))
	case 2:
		return LoCoord(t)
	case 3:
		return float32(t.Intn(17)) / 16
	default:
		return -float32(1 + t.Intn(300)) // never -0: the short number forms carry no sign of zero
	}
}

// LODVal draws a level-of-detail bound.
func LODVal(t *tape.Tape, upper bool) float32 {
	if t.Chance(1, 4) {
		// exactly on, one below and one above the raster heights the checks
		// render at: the test is lod0 <= height < lod1
		h := []int{1, 24, 32, 120, 44, 20}[t.Intn(6)]
		if t.Chance(1, 3) {
			// a hair off the height (exactly representable in the 4-byte form):
			// a bound is a threshold, not a coordinate, and rounding it to 1/64
			// moves it across the height
			return float32(h) + []float32{1.0 / 1024, -1.0 / 1024}[t.Intn(2)]
		}
		return float32(h + t.Range(-1, 1))
	}
	switch t.Pick(3, 2, 1) {
	case 0:
		if upper {
			return float32(math.Inf(1))
		}
		return 0
	case 1:
		return float32(t.Intn(200))
	default:
		return float32(t.Intn(4096)) / 8
	}
}

var lat1 = [5]uint8{0x00, 0x40, 0x80, 0xc0, 0xff}

// GenRGBA draws a direct colour of class cls (see GenColor).
func genRGBA(t *tape.Tape, cls int) color.RGBA {
	switch cls {
	case 0: // opaque 1-byte lattice
		return color.RGBA{lat1[t.Intn(5)], lat1[t.Intn(5)], lat1[t.Intn(5)], 0xff}
	case 1: // the three translucent 1-byte colours
		return [3]color.RGBA{{0, 0, 0, 0}, {0x80, 0x80, 0x80, 0x80}, {0xc0, 0xc0, 0xc0, 0xc0}}[t.Intn(3)]
	case 2: // 2-byte lattice, premultiplied
		a := t.Intn(16)
		return color.RGBA{uint8(0x11 * t.Intn(a+1)), uint8(0x11 * t.Intn(a+1)), uint8(0x11 * t.Intn(a+1)), uint8(0x11 * a)}
	case 3: // opaque, any RGB
		return color.RGBA{uint8(t.Intn(256)), uint8(t.Intn(256)), uint8(t.Intn(256)), 0xff}
	case 4: // premultiplied, any alpha
		a := t.Intn(256)
		return color.RGBA{uint8(t.Intn(a + 1)), uint8(t.Intn(a + 1)), uint8(t.Intn(a + 1)), uint8(a)}
	case 5: // translucent multiples of 0x40 that have no 1-byte encoding
		a := 1 + t.Intn(3)
		return color.RGBA{uint8(0x40 * t.Intn(a+1)), uint8(0x40 * t.Intn(a+1)), uint8(0x40 * t.Intn(a+1)), uint8(0x40 * a)}
	case 6: // gradient encoding
		return ivg.EncodeGradient(uint8(t.Intn(64)), uint8(t.Intn(64)), uint8(t.Intn(2)), uint8(t.Intn(4)), uint8(t.Intn(64)))
	default: // neither premultiplied nor a gradient
		a := t.Intn(255)
		c := color.RGBA{uint8(a + 1 + t.Intn(255-a)), uint8(t.Intn(256)), uint8(t.Intn(128)), uint8(a)}
		return c
	}
}

// GenRGBAClass draws a colour of one class: 0 opaque 1-byte lattice, 1 translucent
// 1-byte, 2 2-byte lattice, 3 opaque any RGB, 4 premultiplied any alpha, ...
func GenRGBAClass(t *tape.Tape, cls int) color.RGBA { return genRGBA(t, cls) }

// GenColor draws an ivg.Color of every kind the format knows.
// wideIndex draws a palette / register index: the constructors take a byte
// and index modulo 64, so one index in four carries high bits.
func wideIndex(t *tape.Tape) uint8 {
	i := uint8(t.Intn(64))
	if t.Chance(1, 4) {
		i |= uint8(1+t.Intn(3)) << 6
	}
	return i
}

func GenColor(t *tape.Tape) ivg.Color {
	switch t.Pick(4, 2, 2, 2, 2, 2, 3, 3, 3, 1) {
	case 0:
		return ivg.RGBAColor(genRGBA(t, 0))
	case 1:
		return ivg.RGBAColor(genRGBA(t, 1))
	case 2:
		return ivg.RGBAColor(genRGBA(t, 2))
	case 3:
		return ivg.RGBAColor(genRGBA(t, 3))
	case 4:
		return ivg.RGBAColor(genRGBA(t, 4))
	case 5:
		return ivg.RGBAColor(genRGBA(t, 5))
	case 6:
		return ivg.PaletteIndexColor(wideIndex(t))
	case 7:
		return ivg.CRegColor(wideIndex(t))
	case 8:
		return ivg.BlendColor(uint8(t.Intn(256)), uint8(t.Intn(256)), uint8(t.Intn(256)))
	default:
		return ivg.RGBAColor(genRGBA(t, 6+t.Intn(2)))
	}
}

// GenPalette draws a suggested palette of premultiplied colours. The class
// mix is chosen per palette so that each of the four palette formats (1, 2,
// 3 and 4 bytes per colour) is produced.
func GenPalette(t *tape.Tape) *[64]color.RGBA {
	p := ivg.DefaultPalette
	if t.Chance(1, 6) {
		return &p
	}
	maxCls := t.Pick(3, 2, 2, 2, 3) // 0: only 1-byte colours … 4: anything premultiplied
	n := 1 + t.Intn(4)
	if t.Chance(1, 8) {
		n = 1 + t.Intn(64)
	}
	for i := 0; i < n; i++ {
		idx := t.Intn(64)
		if t.Chance(1, 2) {
			idx = t.Intn(4)
		}
		var cls int
		switch maxCls {
		case 0:
			cls = t.Pick(3, 1)
		case 1:
			cls = t.Pick(1, 1, 3)
		case 2:
			cls = t.Pick(1, 0, 0, 3)
		case 3:
			cls = t.Pick(1, 1, 1, 1, 3)
		default:
			cls = t.Pick(1, 1, 1, 1, 2, 4)
		}
		p[idx] = genRGBA(t, cls)
	}
	return &p
}

// GenViewBox draws a valid viewBox on the coordinate lattice.
func GenViewBox(t *tape.Tape) ivg.ViewBox {
	switch t.Pick(4, 2, 2, 3, 1) {
	case 0:
		return ivg.DefaultViewBox
	case 1:
		return ivg.ViewBox{MinX: 0, MinY: 0, MaxX: 48, MaxY: 48}
	case 2:
		return ivg.ViewBox{MinX: -24, MinY: -24, MaxX: 24, MaxY: 24}
	case 3:
		x0 := float32(t.Range(-4096, 4000)) / 64
		y0 := float32(t.Range(-4096, 4000)) / 64
		return ivg.ViewBox{MinX: x0, MinY: y0, MaxX: x0 + float32(1+t.Intn(4096))/64, MaxY: y0 + float32(1+t.Intn(4096))/64}
	default:
		x0 := float32(t.Range(-2000, 2000)) / 4
		y0 := float32(t.Range(-2000, 2000)) / 4
		return ivg.ViewBox{MinX: x0, MinY: y0, MaxX: x0 + float32(1+t.Intn(2000))/4, MaxY: y0 + float32(1+t.Intn(2000))/4}
	}
}

// OffViewBox draws a viewBox whose bounds are off the 1/64 lattice: the
// format carries them in the 4-byte form (two mantissa bits dropped), never
// quantised to 1/64. Spans go from a tenth of a unit (normalised artwork,
// the case for high-resolution coordinates) to icon size.
func OffViewBox(t *tape.Tape) ivg.ViewBox {
	bound := func() float32 {
		return float32(t.Range(-6400, 6400))/64 + float32(1+t.Intn(1<<14))/(1<<20)
	}
	span := func() float32 {
		switch t.Pick(2, 2, 1) {
		case 0:
			return float32(100+t.Intn(900)) / 1000 / float32(int(1)<<uint(t.Intn(4)))
		case 1:
			return float32(1+t.Intn(4096))/64 + float32(1+t.Intn(1<<14))/(1<<20)
		}
		return float32(8+t.Intn(56)) + 1.0/3
	}
	x0, y0 := bound(), bound()
	if t.Chance(1, 3) {
		x0, y0 = float32(t.Intn(1<<14))/(1<<20), 0
	}
	vb := ivg.ViewBox{MinX: x0, MinY: y0, MaxX: x0 + span(), MaxY: y0 + span()}
	if !(vb.MaxX > vb.MinX) || !(vb.MaxY > vb.MinY) {
		return ivg.ViewBox{MinX: 0, MinY: 0, MaxX: 0.1, MaxY: 0.3}
	}
	return vb
}

// GenCfg steers the program generator; the zero value gives plain programs
// over the 30 Destination methods.
type GenCfg struct {
	MaxItems   int  // default 12
	Abstract   bool // allow read-backs, Generator helpers, path-data front ends
	EncOnly    bool // allow Encoder-only steps (resolution flag)
	Observers  bool // allow CSel/NSel observer calls
	NoReset    bool // never start with Reset (zero-value histories)
	ForceReset bool // always start with Reset
	ManyStops  bool // hand-written gradients with up to 63 stops
	LongRuns   int  // weight (out of ~90) of runs of 37..300 identical drawing calls
	OffLattice bool // coordinates off the lattice (the oracle must then allow the format's quantisation); absolute, non-smooth, non-arc verbs only
	WildStops  bool // gradient stops in any order (C18: the caller's slice must not be touched whatever it holds)
	ReadFirst  bool // bias towards reading state before writing it (C17's program B)
	Dirty      bool // bias towards dirtying all state (C17's program A)
}

type gen struct {
	t     *tape.Tape
	cfg   GenCfg
	ops   []Op
	hires bool
	// swarm weights, drawn once per program
	wSel, wCReg, wNReg, wLOD, wPath, wGrad, wHelper, wReadBack, wObs, wHiRes int
	wIncr                                                                    int
}

func (g *gen) emit(o Op) { g.ops = append(g.ops, o) }

func (g *gen) coord() float32 {
	if g.cfg.OffLattice && g.t.Chance(2, 3) {
		return OffCoord(g.t)
	}
	if g.hires {
		return HiCoord(g.t)
	}
	return LoCoord(g.t)
}

func (g *gen) sel() uint8 {
	t := g.t
	switch t.Pick(3, 2, 2, 1) {
	case 0:
		return uint8(t.Intn(64))
	case 1:
		return uint8(62 + t.Intn(2)) // about to wrap
	case 2:
		return uint8(t.Intn(3))
	default:
		return uint8(t.Intn(256)) // out of range: must be masked
	}
}

func (g *gen) adj() uint8 { return uint8(g.t.Intn(7)) }

func (g *gen) styling() {
	t := g.t
	switch t.Pick(g.wSel, g.wSel, g.wCReg, g.wNReg, g.wLOD, g.wReadBack, g.wReadBack, g.wObs, g.wHiRes) {
	case 0:
		g.emit(Op{K: KSetCSel, U: g.sel()})
	case 1:
		g.emit(Op{K: KSetNSel, U: g.sel()})
	case 2:
		o := Op{K: KSetCReg, C: GenColor(t)}
		if t.Chance(g.wIncr, 10) {
			o.Incr = true
		} else {
			o.U = g.adj()
		}
		g.emit(o)
	case 3:
		o := Op{K: KSetNReg, F: [6]float32{NRegVal(t)}}
		if t.Chance(g.wIncr, 10) {
			o.Incr = true
		} else {
			o.U = g.adj()
		}
		g.emit(o)
	case 4:
		g.emit(Op{K: KSetLOD, F: [6]float32{LODVal(t, false), LODVal(t, true)}})
	case 5:
		g.emit(Op{K: KReadBackC, U: uint8(t.Intn(4))})
	case 6:
		g.emit(Op{K: KReadBackN, U: uint8(t.Intn(4))})
	case 7:
		if t.Bool() {
			g.emit(Op{K: KCSel})
		} else {
			g.emit(Op{K: KNSel})
		}
	case 8:
		g.hires = t.Bool()
		g.emit(Op{K: KSetHiRes, Incr: g.hires})
	}
}

var drawKinds = []Kind{
	KAbsLineTo, KRelLineTo, KAbsHLineTo, KRelHLineTo, KAbsVLineTo, KRelVLineTo,
	KAbsSmoothQuadTo, KRelSmoothQuadTo, KAbsQuadTo, KRelQuadTo,
	KAbsSmoothCubeTo, KRelSmoothCubeTo, KAbsCubeTo, KRelCubeTo,
	KAbsArcTo, KRelArcTo, KClosePathAbsMoveTo, KClosePathRelMoveTo,
}

func (g *gen) drawOp(k Kind) Op {
	t := g.t
	o := Op{K: k}
	switch k {
	case KAbsArcTo, KRelArcTo:
		o.F[0] = g.radius()
		o.F[1] = g.radius()
		o.F[2] = Angle(t)
		o.LA, o.SW = t.Bool(), t.Bool()
		o.F[3], o.F[4] = g.coord(), g.coord()
	default:
		for i := 0; i < k.NArgs(); i++ {
			o.F[i] = g.coord()
		}
	}
	return o
}

func (g *gen) radius() float32 {
	t := g.t
	switch t.Pick(6, 1, 1) {
	case 0:
		return float32(1+t.Intn(2048)) / 64
	case 1:
		return 0
	default:
		return -float32(1+t.Intn(640)) / 64
	}
}

// path emits StartPath, drawing ops (in runs of the same verb, so that the
// Encoder's run-length batching is exercised past its 16/32 repeat limits)
// and ClosePathEndPath.
func (g *gen) path() {
	t := g.t
	g.emit(Op{K: KStartPath, U: g.adj(), F: [6]float32{g.coord(), g.coord()}})
	nRuns := t.Range(0, 4)
	if g.cfg.ReadFirst && !g.cfg.OffLattice && t.Chance(2, 3) {
		// smooth and relative verbs first: they read smooth-curve memory and the pen
		k := []Kind{KRelSmoothQuadTo, KAbsSmoothQuadTo, KRelSmoothCubeTo, KAbsSmoothCubeTo, KRelLineTo, KRelArcTo}[t.Intn(6)]
		g.emit(g.drawOp(k))
	}
	for r := 0; r < nRuns; r++ {
		k := drawKinds[t.Intn(len(drawKinds))]
		if g.cfg.OffLattice {
			// independent absolute coordinates only: the error of each stays
			// within one quantum instead of accumulating along the path
			k = []Kind{KAbsLineTo, KAbsHLineTo, KAbsVLineTo, KAbsQuadTo, KAbsCubeTo, KClosePathAbsMoveTo}[t.Intn(6)]
		}
		n := 1
		switch t.Pick(50, 30, 10, g.cfg.LongRuns) {
		case 1:
			n = t.Range(2, 5)
		case 2:
			n = t.Range(15, 36) // across the 16/32 repeat limits of one opcode
		case 3:
			n = t.Range(37, 300) // hundreds of buffered arguments in one run
		}
		for i := 0; i < n; i++ {
			g.emit(g.drawOp(k))
		}
	}
	g.emit(Op{K: KClosePathEndPath})
}

// sameAgain re-establishes state with a value it held before, the way
// producers do that set "the colour for this shape" before every shape: a
// register (or selector, or the LOD range) is written with X, then with
// something else, then with X again, and a path is filled from it. Whoever
// remembers "what this register already holds" must notice the write in
// between, whatever form it takes (a flat colour, an indirect one, a
// gradient put there by a helper, an incrementing write that lands on it).
func (g *gen) sameAgain() {
	t := g.t
	smallPath := func(adj uint8) {
		g.emit(Op{K: KStartPath, U: adj, F: [6]float32{LoCoord(t), LoCoord(t)}})
		g.emit(g.drawOp(KAbsLineTo))
		g.emit(g.drawOp(KAbsLineTo))
		g.emit(Op{K: KClosePathEndPath})
	}
	switch t.Pick(6, 2, 1, 1) {
	case 0:
		adj := g.adj()
		x := Op{K: KSetCReg, U: adj, C: ivg.RGBAColor(genRGBA(t, t.Pick(3, 1, 1, 1, 2)))}
		variant := t.Pick(2, 2, 3, 1)
		home := g.sel()
		if variant == 3 && !g.cfg.Abstract {
			g.emit(Op{K: KSetCSel, U: home}) // a known selector to come back to
		}
		g.emit(x)
		if t.Bool() {
			smallPath(adj)
		}
		switch variant {
		case 0:
			g.emit(Op{K: KSetCReg, U: adj, C: ivg.RGBAColor(genRGBA(t, t.Pick(3, 1, 1, 1, 2)))})
		case 1:
			g.emit(Op{K: KSetCReg, U: adj, C: []ivg.Color{ivg.PaletteIndexColor(wideIndex(t)), ivg.CRegColor(wideIndex(t)), ivg.BlendColor(uint8(t.Intn(256)), uint8(t.Intn(256)), uint8(t.Intn(256)))}[t.Intn(3)]})
		case 2:
			if g.cfg.Abstract && adj == 0 {
				x1, y1 := LoCoord(t), LoCoord(t)
				g.emit(Op{K: KGradLinear, F: [6]float32{x1, y1, x1 + g.nonzero(), y1 + g.nonzero()}, Spread: uint8(t.Intn(4)), Stops: g.stops()})
			} else {
				g.emit(Op{K: KSetCReg, U: adj, C: ivg.RGBAColor(ivg.EncodeGradient(uint8(t.Intn(64)), uint8(t.Intn(64)), uint8(t.Intn(2)), uint8(t.Intn(4)), uint8(t.Intn(3))))})
			}
		default:
			// an incrementing write lands on the register when adj is 0
			g.emit(Op{K: KSetCReg, Incr: true, C: ivg.RGBAColor(genRGBA(t, 0))})
			if !g.cfg.Abstract {
				g.emit(Op{K: KSetCSel, U: home})
			} else if adj == 0 {
				g.emit(Op{K: KReadBackC, U: 63}) // step the selector back onto it
			}
		}
		if t.Bool() {
			smallPath(adj)
		}
		g.emit(x)
		smallPath(adj)
	case 1:
		adj := g.adj()
		x := Op{K: KSetNReg, U: adj, F: [6]float32{NRegVal(t)}}
		g.emit(x)
		g.emit(Op{K: KSetNReg, U: adj, F: [6]float32{NRegVal(t)}})
		g.emit(x)
	case 2:
		a, b := g.sel(), g.sel()
		k := []Kind{KSetCSel, KSetNSel}[t.Intn(2)]
		g.emit(Op{K: k, U: a})
		g.emit(Op{K: k, U: b})
		g.emit(Op{K: k, U: a})
		smallPath(g.adj())
	default:
		x := Op{K: KSetLOD, F: [6]float32{LODVal(t, false), LODVal(t, true)}}
		g.emit(x)
		smallPath(g.adj())
		g.emit(Op{K: KSetLOD, F: [6]float32{LODVal(t, false), LODVal(t, true)}})
		g.emit(x)
		smallPath(g.adj())
	}
}

// manualGradient writes a gradient the way a hand-written producer does:
// selectors, six matrix registers, incrementing stop writes, the gradient
// colour, and a path filled with it.
func (g *gen) manualGradient() {
	t := g.t
	cb, nb := uint8(t.Intn(64)), uint8(t.Intn(64))
	if t.Chance(1, 4) {
		nb = uint8(58 + t.Intn(6)) // stops wrap around 63
	}
	nStops := 2 + t.Intn(4)
	if (g.cfg.Dirty || g.cfg.ManyStops) && t.Chance(1, 3) {
		nStops = 32 + t.Intn(32) // up to 63, the most a gradient descriptor can ask for
	}
	g.emit(Op{K: KSetCSel, U: cb})
	g.emit(Op{K: KSetNSel, U: nb})
	for i := 6; i >= 1; i-- {
		v := float32(t.Range(-64, 64)) / 64
		if i == 6 || i == 2 {
			v = float32(1+t.Intn(16)) / 64
		}
		g.emit(Op{K: KSetNReg, U: uint8(i), F: [6]float32{v}})
	}
	off := 0
	for i := 0; i < nStops; i++ {
		g.emit(Op{K: KSetCReg, Incr: true, C: ivg.RGBAColor(genRGBA(t, t.Pick(2, 1, 1, 2, 2)))})
		g.emit(Op{K: KSetNReg, Incr: true, F: [6]float32{float32(off) / 1024}})
		off += 1 + t.Intn(1024/nStops)
		if off > 1024 {
			off = 1024
		}
	}
	// the descriptor goes into a register outside the stop window most of the
	// time (inside it, it would overwrite a stop and invalidate the gradient)
	sel := uint8(t.Intn(64))
	if t.Chance(3, 4) {
		sel = (cb + uint8(nStops) + uint8(t.Intn(64-nStops))) & 63
	}
	g.emit(Op{K: KSetCSel, U: sel})
	g.emit(Op{K: KSetCReg, U: 0, C: ivg.RGBAColor(ivg.EncodeGradient(cb, nb, uint8(t.Intn(2)), uint8(t.Intn(4)), uint8(nStops)))})
	g.emit(Op{K: KStartPath, U: 0, F: [6]float32{g.coord(), g.coord()}})
	g.emit(g.drawOp(KAbsLineTo))
	g.emit(g.drawOp(KRelLineTo))
	g.emit(Op{K: KClosePathEndPath})
}

// dirtyAll writes every colour and number register through incrementing
// writes and leaves the selectors somewhere arbitrary (C17's program A).
func (g *gen) dirtyAll() {
	t := g.t
	g.emit(Op{K: KSetCSel, U: uint8(t.Intn(64))})
	g.emit(Op{K: KSetNSel, U: uint8(t.Intn(64))})
	off := 0
	for i := 0; i < 64; i++ {
		g.emit(Op{K: KSetCReg, Incr: true, C: ivg.RGBAColor(genRGBA(t, t.Pick(2, 1, 1, 2, 2)))})
		// strictly increasing offsets in [0,1]: whatever window a later gradient
		// reads, stale registers would make it valid
		g.emit(Op{K: KSetNReg, Incr: true, F: [6]float32{float32(off) / 1024}})
		off += 1 + t.Intn(15)
	}
	g.emit(Op{K: KSetCSel, U: 63})
	g.emit(Op{K: KSetNSel, U: 63})
}

// readUnset fills a path from registers the program itself never wrote: a
// plain register, or a gradient whose stops and matrix lie in registers it
// never set (C17's program B: on a fresh object these read the palette and
// zeros; on a dirty one they would read the previous graphic).
func (g *gen) readUnset() {
	t := g.t
	if t.Bool() { // otherwise the selector itself is read before it is written
		g.emit(Op{K: KSetCSel, U: uint8(t.Intn(64))})
	}
	if t.Chance(1, 4) {
		g.relativeGradient()
		return
	}
	if t.Bool() {
		nStops := 2 + t.Intn(5)
		g.emit(Op{K: KSetCReg, U: 0, C: ivg.RGBAColor(ivg.EncodeGradient(uint8(t.Intn(64)), uint8(t.Intn(64)), uint8(t.Intn(2)), uint8(t.Intn(4)), uint8(nStops)))})
		g.emit(Op{K: KStartPath, U: 0, F: [6]float32{g.coord(), g.coord()}})
	} else {
		g.emit(Op{K: KStartPath, U: g.adj(), F: [6]float32{g.coord(), g.coord()}})
	}
	k := []Kind{KRelSmoothQuadTo, KAbsSmoothQuadTo, KRelSmoothCubeTo, KAbsSmoothCubeTo, KRelLineTo, KAbsLineTo}[t.Intn(6)]
	g.emit(g.drawOp(k))
	g.emit(g.drawOp(KAbsLineTo))
	g.emit(Op{K: KClosePathEndPath})
}

// relativeGradient builds a gradient without ever setting a selector: the
// matrix and the stops go through incrementing writes from wherever the
// selectors are, and the gradient colour names the registers those writes
// hit when the selectors started at zero, as they do on a fresh object.
func (g *gen) relativeGradient() {
	t := g.t
	for i := 0; i < 6; i++ {
		v := float32(t.Range(-64, 64)) / 64
		if i == 0 || i == 4 {
			v = float32(1+t.Intn(16)) / 64
		}
		g.emit(Op{K: KSetNReg, Incr: true, F: [6]float32{v}})
	}
	nStops := 2 + t.Intn(3)
	off := 0
	for i := 0; i < nStops; i++ {
		g.emit(Op{K: KSetCReg, Incr: true, C: ivg.RGBAColor(genRGBA(t, t.Pick(2, 1, 1, 2, 2)))})
		g.emit(Op{K: KSetNReg, Incr: true, F: [6]float32{float32(off) / 1024}})
		off += 1 + t.Intn(1024/nStops)
	}
	g.emit(Op{K: KSetCReg, U: 0, C: ivg.RGBAColor(ivg.EncodeGradient(0, 6, uint8(t.Intn(2)), uint8(1+t.Intn(3)), uint8(nStops)))})
	g.emit(Op{K: KStartPath, U: 0, F: [6]float32{g.coord(), g.coord()}})
	g.emit(g.drawOp(KAbsLineTo))
	g.emit(g.drawOp(KAbsLineTo))
	g.emit(Op{K: KClosePathEndPath})
}

// selWrapThenHelper pushes a selector across the 63 -> 0 wrap with a run of
// incrementing writes and, without any absolute selector write in between,
// calls a gradient helper, which reads the selectors back.
func (g *gen) selWrapThenHelper() {
	t := g.t
	c := uint8(t.Range(40, 63))
	n := t.Range(1, 40)
	if t.Bool() {
		g.emit(Op{K: KSetCSel, U: c})
		for i := 0; i < n; i++ {
			g.emit(Op{K: KSetCReg, Incr: true, C: ivg.RGBAColor(genRGBA(t, t.Pick(2, 1, 1, 2, 2)))})
		}
	} else {
		g.emit(Op{K: KSetNSel, U: c})
		for i := 0; i < n; i++ {
			g.emit(Op{K: KSetNReg, Incr: true, F: [6]float32{NRegVal(t)}})
		}
	}
	if t.Chance(1, 4) {
		g.emit(Op{K: []Kind{KCSel, KNSel}[t.Intn(2)]})
	}
	g.helper()
}

func (g *gen) stops() []generate.GradientStop {
	t := g.t
	n := t.Range(2, 5)
	if t.Chance(1, 12) {
		n = t.Range(0, 60)
	}
	out := make([]generate.GradientStop, n)
	off := 0
	for i := range out {
		out[i] = generate.GradientStop{Offset: float32(off) / 1024, Color: genRGBA(t, t.Pick(2, 1, 1, 2, 2))}
		off += 1 + t.Intn(1+1024/(n+1))
		if off > 1024 {
			off = 1024
		}
	}
	if g.cfg.WildStops {
		// a caller may hand over any color.Color: the helper converts, and must
		// not store the conversion back into the caller's slice
		for i := range out {
			c := out[i].Color.(color.RGBA)
			switch t.Pick(3, 1, 1, 1) {
			case 1:
				out[i].Color = color.NRGBA{c.R, c.G, c.B, c.A}
			case 2:
				out[i].Color = color.Gray16{uint16(c.R)<<8 | uint16(c.G)}
			case 3:
				out[i].Color = color.RGBA64{uint16(c.R) * 0x101, uint16(c.G) * 0x101, uint16(c.B) * 0x101, uint16(c.A) * 0x101}
			}
		}
	}
	if g.cfg.WildStops && n > 1 && t.Bool() {
		// document order rather than offset order, duplicates included
		for i := n - 1; i > 0; i-- {
			j := t.Intn(i + 1)
			out[i], out[j] = out[j], out[i]
		}
		if t.Chance(1, 3) {
			out[t.Intn(n)].Offset = out[t.Intn(n)].Offset
		}
	}
	return out
}

func (g *gen) nonzero() float32 {
	v := float32(1+g.t.Intn(2048)) / 64
	if g.t.Chance(1, 4) {
		v = -v
	}
	return v
}

// helper emits one Generator helper step followed by a path that uses the
// gradient it set up.
func (g *gen) helper() {
	t := g.t
	switch t.Pick(3, 2, 2, 2, 3, 2) {
	case 0:
		x1, y1 := LoCoord(t), LoCoord(t)
		g.emit(Op{K: KGradLinear, F: [6]float32{x1, y1, x1 + g.nonzero(), y1 + g.nonzero()}, Spread: uint8(t.Intn(4)), Stops: g.stops()})
	case 1:
		g.emit(Op{K: KGradCircular, F: [6]float32{LoCoord(t), LoCoord(t), g.nonzero(), g.nonzero()}, Spread: uint8(t.Intn(4)), Stops: g.stops()})
	case 2:
		rx, ry := g.nonzero(), float32(t.Range(-64, 64))/64
		g.emit(Op{K: KGradElliptical, F: [6]float32{LoCoord(t), LoCoord(t), rx, ry, -ry, rx + 1}, Spread: uint8(t.Intn(4)), Stops: g.stops()})
	case 3:
		var f [6]float32
		for i := range f {
			f[i] = float32(t.Range(-256, 256)) / 64
		}
		g.emit(Op{K: KGradRaw, U: uint8(t.Intn(2)), F: f, Spread: uint8(t.Intn(4)), Stops: g.stops()})
	case 4:
		o := Op{K: KPathData, U: g.adj(), S: GenPathData(t, true)}
		if t.Chance(1, 3) {
			o.F = [6]float32{float32(int(1) << uint(t.Intn(3))), float32(t.Range(-1024, 1024)) / 64, float32(t.Range(-1024, 1024)) / 64}
		}
		g.emit(o)
		return
	default:
		if t.Chance(1, 3) {
			// a whole icon path through the Material Design converter: an
			// opacity (a blend colour into CREG[0-adj], one adj per distinct
			// opacity), path data, and sometimes a circle (two relative arcs)
			o := Op{K: KMDIcon, S: GenPathData(t, false)}
			o.F[0] = []float32{1, 0.5, 0.25, 0.75, 0.125}[t.Intn(5)]
			if t.Chance(1, 3) {
				o.F[1], o.F[2], o.F[3] = float32(t.Range(8, 40)), float32(t.Range(8, 40)), float32(1+t.Intn(8))
			}
			if t.Chance(1, 6) {
				o.S = "" // circles only
				if o.F[3] == 0 {
					o.F[1], o.F[2], o.F[3] = 24, 24, 6
				}
			}
			g.emit(o)
			return
		}
		g.emit(Op{K: KMDPath, U: g.adj(), S: GenPathData(t, false)})
		return
	}
	if t.Chance(3, 4) {
		g.emit(Op{K: KStartPath, U: 0, F: [6]float32{g.coord(), g.coord()}})
		g.emit(g.drawOp(KAbsLineTo))
		g.emit(g.drawOp(KAbsLineTo))
		g.emit(Op{K: KClosePathEndPath})
	}
}

func dyadicStr(t *tape.Tape) string {
	k := t.Range(-2048, 2048)
	switch t.Pick(2, 2, 1) {
	case 0:
		return strconv.Itoa(k / 64)
	case 1:
		return strconv.FormatFloat(float64(k)/64, 'f', -1, 64)
	default:
		return strconv.FormatFloat(float64(k)/4, 'f', -1, 64)
	}
}

// GenPathData draws an SVG path-data string with dyadic decimals in the
// dialect both front ends accept: a verb letter directly followed by its
// first number, numbers separated by one space, a closing "z". Arcs (only
// understood by Generator.SetPathData) use rotations that are multiples of
// 11.25 degrees, i.e. j/32 of a turn.
func GenPathData(t *tape.Tape, arcs bool) string {
	var sb strings.Builder
	nums := func(n int) {
		for i := 0; i < n; i++ {
			if i > 0 {
				sb.WriteByte(' ')
			}
			sb.WriteString(dyadicStr(t))
		}
	}
	sb.WriteByte('M')
	nums(2)
	verbs := "LlHhVvTtQqSsCc"
	n := t.Range(1, 6)
	for i := 0; i < n; i++ {
		if arcs && t.Chance(1, 5) {
			if t.Bool() {
				sb.WriteByte('A')
			} else {
				sb.WriteByte('a')
			}
			fmt.Fprintf(&sb, "%s %s %s %d %d ", strconv.FormatFloat(float64(1+t.Intn(640))/64, 'f', -1, 64),
				strconv.FormatFloat(float64(1+t.Intn(640))/64, 'f', -1, 64),
				strconv.FormatFloat(float64(t.Intn(32))*11.25, 'f', -1, 64), t.Intn(2), t.Intn(2))
			nums(2)
			continue
		}
		v := verbs[t.Intn(len(verbs))]
		sb.WriteByte(v)
		switch v {
		case 'H', 'h', 'V', 'v':
			nums(1)
		case 'L', 'l', 'T', 't':
			nums(2)
			if t.Chance(1, 4) { // implicit repeat
				sb.WriteByte(' ')
				nums(2)
			}
		case 'Q', 'q', 'S', 's':
			nums(4)
		default:
			nums(6)
		}
	}
	sb.WriteByte('z')
	return sb.String()
}

// GenProgram draws a well-formed program: an optional Reset, then styling
// steps and complete paths. Every path is ended; no step violates the
// Encoder protocol.
func GenProgram(t *tape.Tape, cfg GenCfg) []Op {
	g := &gen{t: t, cfg: cfg}
	// swarm: per-program weights
	w := func(hi int) int { return t.Intn(hi + 1) }
	g.wSel, g.wCReg, g.wNReg, g.wLOD, g.wPath = 1+w(3), 1+w(4), 1+w(4), w(2), 1+w(4)
	g.wGrad = w(3)
	g.wIncr = 1 + w(6)
	if cfg.Abstract {
		g.wHelper, g.wReadBack = w(4), w(3)
	}
	if cfg.Observers {
		g.wObs = w(2)
	}
	if cfg.EncOnly {
		g.wHiRes = w(2)
	}
	if cfg.ReadFirst {
		g.wLOD = 0
		g.wPath += 3
	}
	if cfg.Dirty {
		g.wLOD++
		g.wGrad++
	}
	if !cfg.NoReset && (cfg.ForceReset || t.Chance(3, 4)) {
		vb := GenViewBox(t)
		if cfg.OffLattice && t.Bool() {
			vb = OffViewBox(t)
		}
		g.emit(Op{K: KReset, VB: vb, Pal: GenPalette(t)})
	}
	max := cfg.MaxItems
	if max == 0 {
		max = 12
	}
	n := t.Range(1, max)
	wDirty, wUnset := 0, 0
	if cfg.Dirty {
		wDirty = 1
	}
	if cfg.ReadFirst {
		wUnset = 4
		g.readUnset()
	}
	for i := 0; i < n; i++ {
		wWrap := 0
		if cfg.Abstract {
			wWrap = 1 + g.wHelper/2
		}
		wAgain := 0
		if !cfg.OffLattice {
			wAgain = 1 + (g.wCReg+g.wPath)/6
		}
		switch t.Pick(g.wSel+g.wCReg+g.wNReg, g.wPath, g.wGrad, g.wHelper, wDirty, wUnset, wWrap, wAgain) {
		case 0:
			g.styling()
		case 1:
			g.path()
		case 2:
			g.manualGradient()
		case 3:
			g.helper()
		case 4:
			g.dirtyAll()
			wDirty = 0
		case 5:
			g.readUnset()
		case 6:
			g.selWrapThenHelper()
		case 7:
			g.sameAgain()
		}
	}
	if cfg.Dirty && t.Chance(1, 2) {
		// leave LOD bounds that would disable every path of a later graphic
		g.emit(Op{K: KSetLOD, F: [6]float32{float32(1000 + t.Intn(1000)), float32(3000)}})
	}
	return g.ops
}

// Perturb returns a copy of a well-formed program with the same structure
// and a few arguments changed (colours, register values, coordinates, the
// Reset metadata): "the same template, slightly different content", which is
// what defeats a cache or a skipped re-initialisation keyed on too little.
func Perturb(t *tape.Tape, prog []Op) []Op {
	out := make([]Op, 0, len(prog)+1)
	if len(prog) == 0 || prog[0].K != KReset {
		out = append(out, Op{K: KReset, VB: GenViewBox(t), Pal: GenPalette(t)})
	}
	out = append(out, prog...)
	n := 1 + t.Intn(4)
	for i := 0; i < n; i++ {
		o := &out[t.Intn(len(out))]
		switch o.K {
		case KReset:
			if t.Bool() {
				o.VB = GenViewBox(t)
			} else {
				o.Pal = GenPalette(t)
			}
		case KSetCReg:
			if rgba, ok := o.C.RGBA(); ok || rgba.A != 0 {
				o.C = ivg.RGBAColor(genRGBA(t, t.Pick(2, 1, 1, 2, 2)))
			}
		case KSetNReg:
			o.F[0] = float32(t.Intn(65)) / 64
		case KGradLinear, KGradCircular, KGradElliptical, KGradRaw:
			if len(o.Stops) > 0 {
				st := append([]generate.GradientStop(nil), o.Stops...)
				st[t.Intn(len(st))].Color = genRGBA(t, t.Pick(2, 1, 1, 2, 2))
				o.Stops = st
			}
		default:
			if o.K.IsDraw() || o.K == KStartPath {
				if na := o.K.NArgs(); na > 0 && o.K != KAbsArcTo && o.K != KRelArcTo {
					o.F[t.Intn(na)] = LoCoord(t)
				}
			}
		}
	}
	return out
}
