package world

import (
	"math"

	"verif/sim/tape"
)

// MarkKind classifies a position inside a stored file, so that faults can be
// aimed at in-flight structure instead of landing uniformly.
type MarkKind uint8

const (
	MarkFraming MarkKind = iota // a framing natural: chunk count, chunk length, MID, palette count byte
	MarkOpcode                  // first byte of an instruction
	MarkOperand                 // first byte of a number or colour operand
	MarkRepeat                  // an operand inside a repeat group (rep >= 1)
	MarkArc                     // an arc's angle or flags operand
	MarkBody                    // first byte of the instruction stream
)

// Mark is an annotated offset.
type Mark struct {
	Off  int
	Kind MarkKind
	Len  int // encoded length of the item starting here (0 = unknown)
}

// Foreign is a small FFV0 emitter of the harness's own. It writes streams
// the real Encoder never produces — non-shortest number forms, repeat counts
// up to the format's limits, 4-byte naturals for arc flags, NaN/Inf/huge
// operands, 0..2 metadata chunks in each palette format — and remembers
// every instruction and operand boundary.
type Foreign struct {
	B     []byte
	Marks []Mark
}

func (w *Foreign) mark(k MarkKind, n int) {
	w.Marks = append(w.Marks, Mark{Off: len(w.B), Kind: k, Len: n})
}

// Natural appends v in the given width (1, 2 or 4 bytes); v is truncated to
// the width.
func (w *Foreign) Natural(v uint32, width int) {
	switch width {
	case 1:
		w.B = append(w.B, byte(v<<1))
	case 2:
		u := v<<2 | 1
		w.B = append(w.B, byte(u), byte(u>>8))
	default:
		u := v<<2 | 3
		w.B = append(w.B, byte(u), byte(u>>8), byte(u>>16), byte(u>>24))
	}
}

func naturalWidth(t *tape.Tape, v uint32) int {
	min := 4
	if v < 1<<7 {
		min = 1
	} else if v < 1<<14 {
		min = 2
	}
	// mostly the shortest form, sometimes a longer one
	switch {
	case min == 1 && t.Chance(1, 6):
		return 2 << uint(t.Intn(2))
	case min == 2 && t.Chance(1, 6):
		return 4
	}
	return min
}

// Float4 appends f in the 4-byte form (low two bits of the mantissa dropped).
func (w *Foreign) Float4(f float32) {
	u := math.Float32bits(f) | 3
	w.B = append(w.B, byte(u), byte(u>>8), byte(u>>16), byte(u>>24))
}

var weird = []uint32{
	0x7fc00000, 0xffc00000, 0x7f800000, 0xff800000, // NaNs, infinities
	0x7f7ffffc, 0xff7ffffc, // ±3.4e38
	0x00000004, 0x80000004, 0x007ffffc, // denormals
	0x80000000,             // -0
	0x4f000000, 0xcf000000, // ±2^31
	0x5f000000, // 2^63
}

// Number appends a number operand of the given flavour: 0 real, 1
// coordinate, 2 zero-to-one.
func (w *Foreign) Number(t *tape.Tape, flavour int, kind MarkKind) {
	start := len(w.B)
	w.mark(kind, 0)
	switch t.Pick(6, 5, 3, 1) {
	case 0: // 1 byte
		w.B = append(w.B, byte(t.Intn(128))<<1)
	case 1: // 2 bytes
		u := uint32(t.Intn(1<<14))<<2 | 1
		w.B = append(w.B, byte(u), byte(u>>8))
	case 2: // 4 bytes, tame
		var f float32
		switch flavour {
		case 2:
			f = float32(t.Intn(1<<12)) / (1 << 12)
		default:
			f = float32(t.Range(-1<<18, 1<<18)) / 256
		}
		w.Float4(f)
	default: // 4 bytes, hostile
		w.Float4(math.Float32frombits(weird[t.Intn(len(weird))]))
	}
	w.Marks[len(w.Marks)-1].Len = len(w.B) - start
}

// Color appends a colour operand of nBytes bytes.
func (w *Foreign) Color(t *tape.Tape, nBytes int) {
	w.mark(MarkOperand, nBytes)
	for i := 0; i < nBytes; i++ {
		w.B = append(w.B, byte(t.Intn(256)))
	}
}

// Header appends magic and metadata: 0..2 chunks in any order.
func (w *Foreign) Header(t *tape.Tape) {
	w.B = append(w.B, 0x89, 'I', 'V', 'G')
	nChunks := t.Pick(3, 3, 2)
	w.mark(MarkFraming, 0)
	w.Natural(uint32(nChunks), naturalWidth(t, uint32(nChunks)))
	mids := []int{0, 1}
	switch t.Pick(12, 2, 1, 1) {
	case 1:
		mids = []int{1, 0} // out of order
	case 2:
		mids = []int{1, 1} // the same chunk twice (the format forbids it; decoders tend to accept it)
	case 3:
		mids = []int{0, 0}
	}
	if nChunks == 1 && t.Bool() {
		mids = []int{1}
	}
	for i := 0; i < nChunks; i++ {
		var body Foreign
		mid := mids[i%len(mids)]
		body.Natural(uint32(mid), naturalWidth(t, uint32(mid)))
		if mid == 0 {
			x0, y0 := t.Range(-64, 0), t.Range(-64, 0)
			vals := []int{x0, y0, x0 + 1 + t.Intn(64), y0 + 1 + t.Intn(64)}
			// a writer may also store values the format forbids in a viewBox (not
			// a number, an infinity of either sign, min above max) or merely odd
			// ones (huge, denormal, -0), in a chunk that is framed correctly
			hostileAt := -1
			if t.Chance(1, 5) {
				hostileAt = t.Intn(4)
			}
			for vi, v := range vals {
				if vi == hostileAt {
					body.Float4(math.Float32frombits(weird[t.Intn(len(weird))]))
					continue
				}
				switch t.Pick(3, 2, 1) {
				case 0:
					body.B = append(body.B, byte(v+64)<<1)
				case 1:
					u := uint32(v*64+64*128)<<2 | 1
					body.B = append(body.B, byte(u), byte(u>>8))
				default:
					body.Float4(float32(v))
				}
			}
		} else {
			n := t.Intn(4)
			if t.Chance(1, 6) {
				n = t.Intn(64)
			}
			format := t.Intn(4)
			body.B = append(body.B, byte(n)|byte(format)<<6)
			for j := 0; j <= n; j++ {
				for k := 0; k <= format; k++ {
					body.B = append(body.B, byte(t.Intn(256)))
				}
			}
		}
		w.mark(MarkFraming, 0)
		w.Natural(uint32(len(body.B)), naturalWidth(t, uint32(len(body.B))))
		w.mark(MarkFraming, 0)
		w.B = append(w.B, body.B...)
	}
	w.mark(MarkBody, 0)
}

func (w *Foreign) styling(t *tape.Tape) {
	w.mark(MarkOpcode, 1)
	switch t.Pick(3, 3, 5, 5, 1, 2) {
	case 5:
		// a gradient descriptor stored in CREG[CSEL-adj] and used at once as the
		// fill of the path that follows: stop counts at the edges (none, one,
		// the most the registers hold), the two reserved bits of the count byte,
		// base registers anywhere (wrapping windows), both shapes, all spreads
		adj := byte(t.Intn(7))
		w.B = append(w.B, 0x98+adj)
		w.mark(MarkOperand, 4)
		r := byte([]int{0, 0, 1, 2, 3, 62, 63}[t.Intn(7)])
		if t.Chance(1, 3) {
			r = byte(t.Intn(64))
		}
		if t.Chance(1, 3) {
			r |= byte(1+t.Intn(3)) << 6
		}
		w.B = append(w.B, r, byte(t.Intn(256)), 0x80|byte(t.Intn(128)), 0x00)
		w.pathAdj(t, int(adj))
	case 0:
		w.B = append(w.B, byte(t.Intn(64)))
	case 1:
		w.B = append(w.B, 0x40|byte(t.Intn(64)))
	case 2: // set CREG: 5 colour forms x adj 0..7
		form := t.Intn(5)
		w.B = append(w.B, 0x80+byte(form)<<3+byte(t.Intn(8)))
		w.Color(t, []int{1, 2, 3, 4, 3}[form])
	case 3: // set NREG: 3 number forms x adj 0..7
		form := t.Intn(3)
		w.B = append(w.B, 0xa8+byte(form)<<3+byte(t.Intn(8)))
		w.Number(t, form, MarkOperand)
	default:
		w.B = append(w.B, 0xc7)
		w.Number(t, 0, MarkOperand)
		w.Number(t, 0, MarkOperand)
	}
}

func (w *Foreign) path(t *tape.Tape) { w.pathAdj(t, -1) }

// pathAdj writes a path filled from CREG[CSEL-adj] (adj < 0: any).
func (w *Foreign) pathAdj(t *tape.Tape, adj int) {
	w.mark(MarkOpcode, 1)
	if adj < 0 {
		adj = t.Intn(7)
	}
	w.B = append(w.B, 0xc0+byte(adj))
	w.Number(t, 1, MarkOperand)
	w.Number(t, 1, MarkOperand)
	nOps := t.Range(0, 6)
	if t.Chance(1, 12) {
		// a long polyline: many back-to-back full opcodes of one kind (hundreds
		// of segments of the same verb, which no corpus file contains)
		op := []byte{0x1f, 0x3f, 0x4f, 0x5f, 0x6f, 0x7f, 0x8f, 0x9f, 0xaf, 0xbf}[t.Intn(10)]
		reps, n := 16, 2
		switch {
		case op < 0x40:
			reps = 32
		case op >= 0xa0:
			n = 6
		case op >= 0x60:
			n = 4
		}
		for k := t.Range(4, 20); k > 0; k-- {
			w.mark(MarkOpcode, 1)
			w.B = append(w.B, op)
			for j := 0; j < reps*n; j++ {
				// 1-byte coordinates keep the file small
				w.B = append(w.B, byte(t.Intn(128))<<1)
			}
		}
	}
	for i := 0; i < nOps; i++ {
		w.mark(MarkOpcode, 1)
		switch sel := t.Pick(4, 3, 3, 3, 3, 3); sel {
		case 0: // L/l: up to 32 reps
			reps := 1 + t.Intn(32)
			if t.Chance(2, 3) {
				reps = 1 + t.Intn(3)
			}
			w.B = append(w.B, byte(t.Intn(2))<<5|byte(reps-1))
			w.coords(t, reps, 2)
		case 1, 2, 3: // T/t (2), Q/q S/s (4), C/c (6): up to 16 reps
			reps := 1 + t.Intn(16)
			if t.Chance(2, 3) {
				reps = 1 + t.Intn(2)
			}
			var base byte
			var n int
			switch sel {
			case 1:
				base, n = 0x40+byte(t.Intn(2))<<4, 2
			case 2:
				base, n = 0x60+byte(t.Intn(4))<<4, 4
			default:
				base, n = 0xa0+byte(t.Intn(2))<<4, 6
			}
			w.B = append(w.B, base|byte(reps-1))
			w.coords(t, reps, n)
		case 4: // A/a
			reps := 1 + t.Intn(16)
			if t.Chance(3, 4) {
				reps = 1 + t.Intn(2)
			}
			w.B = append(w.B, 0xc0+byte(t.Intn(2))<<4|byte(reps-1))
			for r := 0; r < reps; r++ {
				k := MarkOperand
				if r > 0 {
					k = MarkRepeat
				}
				w.Number(t, 1, k)
				w.Number(t, 1, k)
				w.Number(t, 2, MarkArc)
				w.mark(MarkArc, 0)
				fl := uint32(t.Intn(4))
				if t.Chance(1, 4) {
					fl = uint32(t.Intn(1 << 30))
				}
				w.Natural(fl, naturalWidth(t, fl))
				w.Number(t, 1, k)
				w.Number(t, 1, k)
			}
		default: // Y y H h V v
			op := []byte{0xe2, 0xe3, 0xe6, 0xe7, 0xe8, 0xe9}[t.Intn(6)]
			w.B = append(w.B, op)
			n := 1
			if op <= 0xe3 {
				n = 2
			}
			w.coords(t, 1, n)
		}
	}
	if t.Chance(9, 10) {
		w.mark(MarkOpcode, 1)
		w.B = append(w.B, 0xe1)
	}
}

func (w *Foreign) coords(t *tape.Tape, reps, n int) {
	for r := 0; r < reps; r++ {
		k := MarkOperand
		if r > 0 {
			k = MarkRepeat
		}
		for i := 0; i < n; i++ {
			w.Number(t, 1, k)
		}
	}
}

// GenForeign writes one foreign file.
func GenForeign(t *tape.Tape) *Foreign {
	w := &Foreign{}
	w.Header(t)
	n := t.Range(0, 10)
	for i := 0; i < n; i++ {
		if t.Chance(2, 5) {
			w.path(t)
		} else {
			w.styling(t)
		}
	}
	if t.Chance(1, 20) { // reserved opcodes
		w.mark(MarkOpcode, 1)
		w.B = append(w.B, byte(0xc8+t.Intn(0x38)))
	}
	return w
}

// ScanMarks derives marks for a file the harness did not write itself (corpus
// files, Encoder output): it walks the stream with the harness's own reading
// of the format, stopping quietly at the first thing it cannot parse.
func ScanMarks(s []byte) []Mark {
	var m []Mark
	nat := func(p int) (uint32, int) {
		if p >= len(s) {
			return 0, 0
		}
		switch {
		case s[p]&1 == 0:
			return uint32(s[p]) >> 1, 1
		case s[p]&2 == 0:
			if p+2 > len(s) {
				return 0, 0
			}
			return (uint32(s[p]) | uint32(s[p+1])<<8) >> 2, 2
		}
		if p+4 > len(s) {
			return 0, 0
		}
		return (uint32(s[p]) | uint32(s[p+1])<<8 | uint32(s[p+2])<<16 | uint32(s[p+3])<<24) >> 2, 4
	}
	if len(s) < 5 {
		return nil
	}
	p := 4
	m = append(m, Mark{p, MarkFraming, 0})
	nc, n := nat(p)
	if n == 0 {
		return m
	}
	p += n
	for ; nc > 0; nc-- {
		m = append(m, Mark{p, MarkFraming, 0})
		l, n := nat(p)
		if n == 0 || p+n+int(l) > len(s) {
			return m
		}
		m = append(m, Mark{p + n, MarkFraming, 0})
		p += n + int(l)
	}
	m = append(m, Mark{p, MarkBody, 0})
	drawing := false
	num := func(kind MarkKind) bool {
		_, n := nat(p)
		if n == 0 {
			return false
		}
		m = append(m, Mark{p, kind, n})
		p += n
		return true
	}
	for p < len(s) {
		op := s[p]
		m = append(m, Mark{p, MarkOpcode, 1})
		p++
		if !drawing {
			switch {
			case op < 0x80:
			case op < 0xa8:
				n := []int{1, 2, 3, 4, 3}[(op-0x80)>>3]
				if p+n > len(s) {
					return m
				}
				m = append(m, Mark{p, MarkOperand, n})
				p += n
			case op < 0xc0:
				if !num(MarkOperand) {
					return m
				}
			case op < 0xc7:
				if !num(MarkOperand) || !num(MarkOperand) {
					return m
				}
				drawing = true
			case op == 0xc7:
				if !num(MarkOperand) || !num(MarkOperand) {
					return m
				}
			default:
				return m
			}
			continue
		}
		switch {
		case op < 0xe0:
			reps, nc := 1+int(op&0x0f), 0
			switch op >> 4 {
			case 0, 1, 2, 3:
				reps, nc = 1+int(op&0x1f), 2
			case 4, 5:
				nc = 2
			case 6, 7, 8, 9:
				nc = 4
			case 10, 11:
				nc = 6
			}
			for r := 0; r < reps; r++ {
				k := MarkOperand
				if r > 0 {
					k = MarkRepeat
				}
				if op>>4 >= 12 {
					if !num(k) || !num(k) || !num(MarkArc) || !num(MarkArc) || !num(k) || !num(k) {
						return m
					}
					continue
				}
				for i := 0; i < nc; i++ {
					if !num(k) {
						return m
					}
				}
			}
		case op == 0xe1:
			drawing = false
		case op == 0xe2 || op == 0xe3:
			if !num(MarkOperand) || !num(MarkOperand) {
				return m
			}
		case op >= 0xe6 && op <= 0xe9:
			if !num(MarkOperand) {
				return m
			}
		default:
			return m
		}
	}
	return m
}
