package tape

import (
	"testing"
	"time"
)

func TestShrinkTruncates(t *testing.T) {
	in := make([]uint64, 38)
	for i := range in {
		in[i] = uint64(100 + i)
	}
	// fires as long as the first 17 values are intact
	keep := func(c []uint64) bool {
		if len(c) < 17 {
			return false
		}
		for i := 0; i < 17; i++ {
			if c[i] != uint64(100+i) {
				return false
			}
		}
		return true
	}
	out, evals := Shrink(in, keep, 2500, 10*time.Second)
	if len(out) != 17 {
		t.Fatalf("shrunk to %d values in %d evals, want 17", len(out), evals)
	}
}

func TestShrinkKeepsSignificantTrailingZeros(t *testing.T) {
	// a literal tape: the length is data; the predicate needs exactly 6 values
	in := []uint64{9, 9, 9, 9, 9, 9}
	keep := func(c []uint64) bool { return len(c) == 6 }
	out, _ := Shrink(in, keep, 1000, 5*time.Second)
	if !keep(out) {
		t.Fatalf("shrinker returned a tape that no longer fires: %v", out)
	}
}
