package tape

import "time"

// Shrink minimises a tape while keep(tape) stays true (keep must report
// whether the *same* invariant still fires). It is a greedy delta-debugging
// loop over the raw tape: delete blocks, zero blocks, then lower single
// values (to 0, halved, minus one). It never consults a PRNG, so the result
// is a function of the input tape, the predicate and the budget; the wall
// clock only bounds how far minimisation gets, never the verdict.
func Shrink(vals []uint64, keep func([]uint64) bool, maxEvals int, maxDur time.Duration) (out []uint64, evals int) {
	cur := append([]uint64(nil), vals...)
	deadline := time.Now().Add(maxDur)
	spent := func() bool { return evals >= maxEvals || time.Now().After(deadline) }
	try := func(c []uint64) bool {
		evals++
		if keep(c) {
			cur = c
			return true
		}
		return false
	}
	for round := 0; round < 8 && !spent(); round++ {
		progress := false
		// delete blocks, large to small, scanning from the end (later draws
		// depend on earlier ones, so tails are the cheapest to remove)
		for _, bs := range []int{64, 16, 8, 4, 2, 1} {
			for i := len(cur) - bs; i >= 0 && !spent(); {
				if i+bs > len(cur) {
					i = len(cur) - bs
					if i < 0 {
						break
					}
				}
				c := append(append([]uint64(nil), cur[:i]...), cur[i+bs:]...)
				if try(c) {
					progress = true
					i -= bs
					if i < 0 {
						i = 0
						if len(cur) < bs {
							break
						}
					}
					continue
				}
				i--
			}
		}
		// zero blocks
		for _, bs := range []int{8, 2} {
			for i := 0; i+bs <= len(cur) && !spent(); i += bs {
				allZero := true
				for _, v := range cur[i : i+bs] {
					if v != 0 {
						allZero = false
					}
				}
				if allZero {
					continue
				}
				c := append([]uint64(nil), cur...)
				for j := i; j < i+bs; j++ {
					c[j] = 0
				}
				if try(c) {
					progress = true
				}
			}
		}
		// lower single values
		for i := 0; i < len(cur) && !spent(); i++ {
			for cur[i] != 0 && !spent() {
				v := cur[i]
				cands := []uint64{0, v / 2, v - 1}
				ok := false
				for _, nv := range cands {
					if nv >= v {
						continue
					}
					c := append([]uint64(nil), cur...)
					c[i] = nv
					if try(c) {
						ok, progress = true, true
						break
					}
					if spent() {
						break
					}
				}
				if !ok {
					break
				}
			}
		}
		// drop trailing zeros: an exhausted tape reads as zeros, so for a
		// generated scenario this changes nothing — but a literal tape's length
		// is data, so the shorter tape is tested like any other candidate
		n := len(cur)
		for n > 0 && cur[n-1] == 0 {
			n--
		}
		if n != len(cur) && !spent() {
			try(append([]uint64(nil), cur[:n]...))
		}
		if !progress {
			break
		}
	}
	return cur, evals
}

// ShrinkBytes minimises a byte string while keep stays true: delete ranges,
// then simplify single bytes toward 0. Used where the failing case *is* a
// byte string (C02), so that the replay file is self-contained.
func ShrinkBytes(b []byte, keep func([]byte) bool, maxEvals int, maxDur time.Duration) (out []byte, evals int) {
	cur := append([]byte(nil), b...)
	deadline := time.Now().Add(maxDur)
	spent := func() bool { return evals >= maxEvals || time.Now().After(deadline) }
	try := func(c []byte) bool {
		evals++
		if keep(c) {
			cur = c
			return true
		}
		return false
	}
	for round := 0; round < 6 && !spent(); round++ {
		progress := false
		for _, bs := range []int{256, 64, 16, 8, 4, 2, 1} {
			for i := len(cur) - bs; i >= 0 && !spent(); {
				if i+bs > len(cur) {
					i = len(cur) - bs
					if i < 0 {
						break
					}
				}
				c := append(append([]byte(nil), cur[:i]...), cur[i+bs:]...)
				if try(c) {
					progress = true
					i -= bs
					if i < 0 {
						i = 0
						if len(cur) < bs {
							break
						}
					}
					continue
				}
				i--
			}
		}
		for i := 0; i < len(cur) && !spent(); i++ {
			if cur[i] == 0 {
				continue
			}
			for _, nv := range []byte{0, cur[i] & 0xf0, cur[i] >> 1} {
				if nv == cur[i] {
					continue
				}
				c := append([]byte(nil), cur...)
				c[i] = nv
				if try(c) {
					progress = true
					break
				}
			}
		}
		if !progress {
			break
		}
	}
	return cur, evals
}
