// Package tape is the single source of every decision in a simulated run.
//
// A run is a pure function of (tape, tree under test). In generation mode
// Draw takes the next value of a SplitMix64 stream seeded from one integer
// and appends it to the tape; in replay mode it reads the tape (an exhausted
// tape yields 0). Generators built on Draw are total: any tape, including
// the empty one, yields a valid scenario, which is what lets the shrinker
// edit tapes blindly.
package tape

// SplitMix64 is written out here so that the sequence cannot change with the
// Go release (math/rand's generators have changed between releases).
type SplitMix64 struct{ s uint64 }

func NewSplitMix(seed uint64) *SplitMix64 { return &SplitMix64{s: seed} }

// Next is marked norace because the chaos scheduler calls it from whichever
// task holds the baton (see sched.RunInvisible).
//
//go:norace
func (r *SplitMix64) Next() uint64 {
	r.s += 0x9e3779b97f4a7c15
	z := r.s
	z = (z ^ (z >> 30)) * 0xbf58476d1ce4e5b9
	z = (z ^ (z >> 27)) * 0x94d049bb133111eb
	return z ^ (z >> 31)
}

// Intn returns a value in [0,n). n must be > 0.
func (r *SplitMix64) Intn(n int) int { return int(r.Next() % uint64(n)) }

// Mix derives a seed from a parent seed and a list of labels.
func Mix(seed uint64, labels ...uint64) uint64 {
	r := SplitMix64{s: seed}
	x := r.Next()
	for _, l := range labels {
		r.s = x ^ (l * 0xd6e8feb86659fd93)
		x = r.Next()
	}
	return x
}

// MixString folds a string label into a seed.
func MixString(seed uint64, s string) uint64 {
	h := uint64(14695981039346656037)
	for i := 0; i < len(s); i++ {
		h ^= uint64(s[i])
		h *= 1099511628211
	}
	return Mix(seed, h)
}

// Tape records or replays the decisions of one run.
type Tape struct {
	vals []uint64
	pos  int
	gen  bool // generate past the end of vals (otherwise yield 0)
	rng  SplitMix64
	max  int // furthest position read
}

// New returns a generating tape whose stream is seeded with seed. The
// optional prefix is consumed first; that is how enumerations force the
// first few decisions (which case, which position, which fault class) and
// leave the rest to the seed.
func New(seed uint64, prefix ...uint64) *Tape {
	return &Tape{vals: append([]uint64(nil), prefix...), gen: true, rng: SplitMix64{s: seed}}
}

// Replay returns a tape that replays vals and yields 0 when exhausted.
func Replay(vals []uint64) *Tape {
	return &Tape{vals: append([]uint64(nil), vals...)}
}

// Draw returns a value in [0,n). n==0 is treated as 1.
func (t *Tape) Draw(n uint64) uint64 {
	if n == 0 {
		n = 1
	}
	var v uint64
	if t.pos < len(t.vals) {
		v = t.vals[t.pos] % n
	} else if t.gen {
		v = t.rng.Next() % n
		t.vals = append(t.vals, v)
	} else {
		v = 0
	}
	t.pos++
	if t.pos > t.max {
		t.max = t.pos
	}
	return v
}

// Intn returns a value in [0,n).
func (t *Tape) Intn(n int) int {
	if n <= 0 {
		n = 1
	}
	return int(t.Draw(uint64(n)))
}

// Range returns a value in [lo,hi] (inclusive).
func (t *Tape) Range(lo, hi int) int {
	if hi < lo {
		hi = lo
	}
	return lo + t.Intn(hi-lo+1)
}

// Bool draws one bit.
func (t *Tape) Bool() bool { return t.Draw(2) == 1 }

// Chance is true with probability num/den. A zero tape value means false,
// so shrinking toward zero removes optional behaviour.
func (t *Tape) Chance(num, den int) bool {
	if den <= 0 {
		return false
	}
	return t.Intn(den) >= den-num
}

// Pick chooses an index by weight. Index 0 is what a zero tape yields.
func (t *Tape) Pick(weights ...int) int {
	sum := 0
	for _, w := range weights {
		if w > 0 {
			sum += w
		}
	}
	if sum == 0 {
		return 0
	}
	v := t.Intn(sum)
	for i, w := range weights {
		if w <= 0 {
			continue
		}
		if v < w {
			return i
		}
		v -= w
	}
	return 0
}

// Sub returns a bulk sub-stream seeded by one tape value: payload bytes and
// "chaos" schedules come from here so that they cost one tape entry.
func (t *Tape) Sub() *SplitMix64 {
	return &SplitMix64{s: t.Draw(1 << 62)}
}

// Values returns the tape read so far (trimmed to what the run consumed).
func (t *Tape) Values() []uint64 {
	n := t.max
	if n > len(t.vals) {
		n = len(t.vals)
	}
	return append([]uint64(nil), t.vals[:n]...)
}

// Len is the number of values on the tape (recorded or given).
func (t *Tape) Len() int { return len(t.vals) }

// Pos is the number of draws made so far.
func (t *Tape) Pos() int { return t.pos }
