// Package model holds the small executable reference models the oracles
// compare the real code with. Each is written from the format text
// (spec/iconvg-spec-v0.md) and the property statements, never by copying
// implementation tables.
package model

import "math"

// natural decodes a natural number: the low bit(s) of the first byte give the
// width (xxxxxxx0: 1 byte, xxxxxx01: 2 bytes, xxxxxx11: 4 bytes).
func natural(b []byte) (v uint32, n int) {
	if len(b) < 1 {
		return 0, 0
	}
	switch {
	case b[0]&1 == 0:
		return uint32(b[0]) >> 1, 1
	case b[0]&2 == 0:
		if len(b) < 2 {
			return 0, 0
		}
		return (uint32(b[0]) | uint32(b[1])<<8) >> 2, 2
	default:
		if len(b) < 4 {
			return 0, 0
		}
		return (uint32(b[0]) | uint32(b[1])<<8 | uint32(b[2])<<16 | uint32(b[3])<<24) >> 2, 4
	}
}

func coordinate(b []byte) (f float64, n int) {
	v, n := natural(b)
	switch n {
	case 1:
		return float64(int64(v) - 64), 1
	case 2:
		return float64(int64(v)-64*128) / 64, 2
	case 4:
		return float64(math.Float32frombits(v << 2)), 4
	}
	return 0, 0
}

// MetadataValid reports whether s starts with the magic identifier followed
// by a well-formed metadata section, and where the instruction stream
// starts. It is deliberately no stricter than the property ("the magic and
// every metadata chunk were valid"): it does not enforce increasing MID
// order or uniqueness (the implementation does not either), and a chunk
// with an unknown MID is accepted when its declared length lies inside the
// input, so a decoder that learns to skip unknown chunks is not flagged.
// The oracle uses it only in one direction: calls delivered => valid.
func MetadataValid(s []byte) (ok bool, body int) {
	if len(s) < 4 || s[0] != 0x89 || s[1] != 'I' || s[2] != 'V' || s[3] != 'G' {
		return false, 0
	}
	p := 4
	nChunks, n := natural(s[p:])
	if n == 0 {
		return false, 0
	}
	p += n
	for ; nChunks > 0; nChunks-- {
		length, n := natural(s[p:])
		if n == 0 {
			return false, 0
		}
		p += n
		end := int64(p) + int64(length)
		if end > int64(len(s)) {
			return false, 0
		}
		mid, n := natural(s[p:])
		if n == 0 {
			return false, 0
		}
		q := p + n
		switch mid {
		case 0:
			var v [4]float64
			for i := range v {
				f, n := coordinate(s[q:])
				if n == 0 {
					return false, 0
				}
				v[i] = f
				q += n
			}
			for _, f := range v {
				if math.IsNaN(f) || math.IsInf(f, 0) {
					return false, 0
				}
			}
			if v[0] > v[2] || v[1] > v[3] {
				return false, 0
			}
		case 1:
			if q >= len(s) {
				return false, 0
			}
			count := 1 + int(s[q]&0x3f)
			width := 1 + int(s[q]>>6)
			q += 1 + count*width
			if q > len(s) {
				return false, 0
			}
		default:
			q = int(end)
		}
		if int64(q) != end {
			return false, 0
		}
		p = q
	}
	return true, p
}
