package model

// The Encoder protocol automaton, written from the property text:
//
//	"An Encoder's Bytes reports an error exactly when the call history since
//	the last Reset violated the protocol: a drawing operation outside a path,
//	a styling operation or new path inside an open path, a register
//	adjustment above 6, or an incrementing form with non-zero adjustment. The
//	first violation is kept until Reset whatever is called afterwards; ... a
//	zero-value Encoder behaves as one reset with the default metadata."
//
// Four states. Initial is the zero value before any call; it behaves as
// Styling for legality. Error absorbs everything except Reset.

type EncState uint8

const (
	EncInitial EncState = iota
	EncStyling
	EncDrawing
	EncError
)

func (s EncState) String() string { return [...]string{"Initial", "Styling", "Drawing", "Error"}[s] }

// Class is the abstract alphabet of Encoder calls.
type Class uint8

const (
	ClsReset     Class = iota // Reset
	ClsObserve                // CSel, NSel, LOD, Bytes, setting the resolution flag: never a violation, never a transition
	ClsSelector               // SetCSel, SetNSel, SetLOD: styling operations without an adjustment
	ClsRegister               // SetCReg, SetNReg: styling operations with adj and incr
	ClsStartPath              // StartPath with adj
	ClsDraw                   // every drawing operation that keeps the path open (incl. close-and-move)
	ClsEndPath                // ClosePathEndPath
)

// EncoderModel is the reference automaton.
type EncoderModel struct {
	State EncState
	// Faults counts protocol violations since the last Reset (only the first
	// one matters to the Encoder; the count is for statistics).
	Faults int
}

// Step advances the automaton by one call.
func (m *EncoderModel) Step(c Class, adj uint8, incr bool) {
	if c == ClsReset {
		m.State, m.Faults = EncStyling, 0
		return
	}
	if c == ClsObserve {
		return
	}
	if m.State == EncError {
		return
	}
	styling := m.State == EncInitial || m.State == EncStyling
	bad := false
	next := m.State
	if m.State == EncInitial {
		next = EncStyling
	}
	switch c {
	case ClsSelector:
		bad = !styling
	case ClsRegister:
		bad = !styling || adj > 6 || (incr && adj != 0)
	case ClsStartPath:
		bad = !styling || adj > 6
		next = EncDrawing
	case ClsDraw:
		bad = styling
	case ClsEndPath:
		bad = styling
		next = EncStyling
	}
	if bad {
		m.State = EncError
		m.Faults++
		return
	}
	m.State = next
}
