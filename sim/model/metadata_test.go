package model

import (
	"testing"

	"github.com/reactivego/ivg/decode"

	"verif/sim/tape"
	"verif/sim/world"
)

// The spec-derived validator is used by C02 only in one direction (calls
// delivered => valid). This harness self-test measures how it relates to the
// implementation under test on synthetic and mutated headers: it must never
// reject what DecodeViewBox accepts (that would turn into false alarms), and
// on the pinned tree the two agree except where the validator is permissive
// on purpose (unknown MIDs of consistent length).
func TestValidatorNeverStricterThanImplementation(t *testing.T) {
	tp := tape.New(12345)
	var enabled [world.NFaultKinds]bool
	for k := range enabled {
		enabled[k] = true
	}
	stricter, looser, valid := 0, 0, 0
	const n = 300000
	for i := 0; i < n; i++ {
		fw := &world.Foreign{}
		fw.Header(tp)
		s := fw.B
		for k := tp.Intn(3); k > 0; k-- {
			s, _ = world.Inject(tp, s, fw.Marks, nil, enabled)
		}
		ok, _ := MetadataValid(s)
		_, err := decode.DecodeViewBox(s)
		switch {
		case ok && err == nil:
			valid++
		case !ok && err == nil:
			stricter++
			if stricter < 5 {
				t.Errorf("validator rejects what DecodeViewBox accepts: % x", s)
			}
		case ok && err != nil:
			looser++
		}
	}
	t.Logf("%d headers: %d valid for both, validator looser on %d (by design: unknown MIDs), stricter on %d", n, valid, looser, stricter)
	if stricter != 0 {
		t.Fatalf("validator stricter than the implementation on %d headers", stricter)
	}
	if valid < n/20 {
		t.Fatalf("only %d of %d headers valid: the self-test lost its power", valid, n)
	}
}

func TestEncoderModelTable(t *testing.T) {
	type step struct {
		c    Class
		adj  uint8
		incr bool
		want EncState
	}
	for _, tc := range [][]step{
		{{ClsDraw, 0, false, EncError}, {ClsSelector, 0, false, EncError}, {ClsReset, 0, false, EncStyling}},
		{{ClsObserve, 0, false, EncInitial}, {ClsStartPath, 6, false, EncDrawing}, {ClsDraw, 0, false, EncDrawing}, {ClsEndPath, 0, false, EncStyling}},
		{{ClsStartPath, 7, false, EncError}},
		{{ClsRegister, 0, true, EncStyling}, {ClsRegister, 1, true, EncError}, {ClsEndPath, 0, false, EncError}},
		{{ClsStartPath, 0, false, EncDrawing}, {ClsStartPath, 0, false, EncError}},
		{{ClsStartPath, 0, false, EncDrawing}, {ClsRegister, 0, false, EncError}},
		{{ClsEndPath, 0, false, EncError}},
	} {
		m := &EncoderModel{}
		for i, s := range tc {
			m.Step(s.c, s.adj, s.incr)
			if m.State != s.want {
				t.Fatalf("%v step %d: state %v, want %v", tc, i, m.State, s.want)
			}
		}
	}
}
