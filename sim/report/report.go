// Package report carries what a simulated run produces: violations, replay
// files, counters and the evidence file.
package report

import (
	"encoding/json"
	"fmt"
	"os"
	"path/filepath"
	"sort"
	"strings"
)

// Violation is one failed invariant.
type Violation struct {
	Property  string   `json:"property"`
	Invariant string   `json:"invariant"` // e.g. "C02.prefix": the unit of "same failure" for shrinking and replay
	Message   string   `json:"message"`
	Trace     []string `json:"trace,omitempty"`
	Tape      []uint64 `json:"tape"`
	Tier      string   `json:"tier"`
	Seed      uint64   `json:"seed"`      // VERIF_SEED of the batch
	Case      int      `json:"case"`      // case index within the batch
	CaseSeed  uint64   `json:"case_seed"` // seed of the case's tape stream
	InputHex  string   `json:"input_hex,omitempty"`
	Shrunk    bool     `json:"shrunk"`
	ShrinkRun int      `json:"shrink_evals"`
	TapeLen0  int      `json:"tape_len_before_shrink"`
	Signature string   `json:"signature,omitempty"` // stable text known findings are matched against
	// KeepPrefix is set by a property together with Tape when the tape is in a
	// literal form whose first values select that form: the shrinker leaves
	// them alone.
	KeepPrefix int `json:"-"`
}

// Replay is the on-disk replay file.
type Replay struct {
	Format    string    `json:"format"`
	Violation Violation `json:"violation"`
	How       string    `json:"how_to_replay"`
}

// WriteReplay writes the replay file and returns its path.
func WriteReplay(dir string, v *Violation) (string, error) {
	if err := os.MkdirAll(dir, 0o755); err != nil {
		return "", err
	}
	name := fmt.Sprintf("%s-%s-seed%d-case%d.json", v.Property, strings.ReplaceAll(strings.TrimPrefix(v.Invariant, v.Property+"."), "/", "_"), v.Seed, v.Case)
	p := filepath.Join(dir, name)
	b, err := json.MarshalIndent(Replay{Format: "ivgsim-replay-1", Violation: *v, How: "/verif/check replay " + p}, "", " ")
	if err != nil {
		return "", err
	}
	return p, os.WriteFile(p, b, 0o644)
}

// ReadReplay loads a replay file.
func ReadReplay(path string) (*Violation, error) {
	b, err := os.ReadFile(path)
	if err != nil {
		return nil, err
	}
	var r Replay
	if err := json.Unmarshal(b, &r); err != nil {
		return nil, err
	}
	if r.Format != "ivgsim-replay-1" {
		return nil, fmt.Errorf("%s: not an ivgsim replay file", path)
	}
	return &r.Violation, nil
}

// Stats are the counters one worker keeps; they are merged by the parent.
type Stats struct {
	Counters map[string]int64 `json:"counters"`
	Samples  []interface{}    `json:"samples"`
	// Distinct is a bitmap indexed by case hash; the number of set bits in
	// the OR over all workers is a lower bound on the number of distinct
	// non-trivial cases (collisions can only undercount).
	distinct []uint64
	bits     uint
}

// NewStats returns empty stats with a 2^bits-bit distinctness bitmap.
func NewStats(bits uint) *Stats {
	return &Stats{Counters: map[string]int64{}, distinct: make([]uint64, 1<<(bits-6)), bits: bits}
}

// Add bumps a counter.
func (s *Stats) Add(name string, n int64) {
	if s == nil {
		return
	}
	s.Counters[name] += n
}

// Max keeps the maximum seen under name.
func (s *Stats) Max(name string, v int64) {
	if s == nil {
		return
	}
	if v > s.Counters[name] {
		s.Counters[name] = v
	}
}

// Distinct records the hash of a non-trivial case.
func (s *Stats) Distinct(h uint64) {
	if s == nil {
		return
	}
	h ^= h >> 29
	h *= 0xbf58476d1ce4e5b9
	h ^= h >> 32
	i := h & (1<<s.bits - 1)
	s.distinct[i>>6] |= 1 << (i & 63)
}

// Sample keeps up to max written-out cases.
func (s *Stats) Sample(max int, v interface{}) {
	if s == nil {
		return
	}
	if len(s.Samples) < max {
		s.Samples = append(s.Samples, v)
	}
}

// WantSample reports whether Sample would keep another case.
func (s *Stats) WantSample(max int) bool { return s != nil && len(s.Samples) < max }

// Bitmap exposes the distinctness bitmap for merging.
func (s *Stats) Bitmap() []uint64 { return s.distinct }

// MergeBitmap ORs another worker's bitmap in.
func (s *Stats) MergeBitmap(o []uint64) {
	for i := range o {
		if i < len(s.distinct) {
			s.distinct[i] |= o[i]
		}
	}
}

// DistinctCount is the popcount of the bitmap.
func (s *Stats) DistinctCount() int64 {
	var n int64
	for _, w := range s.distinct {
		for ; w != 0; w &= w - 1 {
			n++
		}
	}
	return n
}

// MergeCounters adds counters (names starting with "max_" take the maximum).
func (s *Stats) MergeCounters(o map[string]int64) {
	for k, v := range o {
		if strings.HasPrefix(k, "max_") {
			if v > s.Counters[k] {
				s.Counters[k] = v
			}
		} else {
			s.Counters[k] += v
		}
	}
}

// SortedCounters returns the counters whose name has the prefix, stripped.
func (s *Stats) SortedCounters(prefix string) map[string]int64 {
	out := map[string]int64{}
	keys := make([]string, 0, len(s.Counters))
	for k := range s.Counters {
		keys = append(keys, k)
	}
	sort.Strings(keys)
	for _, k := range keys {
		if strings.HasPrefix(k, prefix) {
			out[strings.TrimPrefix(k, prefix)] = s.Counters[k]
		}
	}
	return out
}

// KnownFindings is /verif/known_findings.json.
type KnownFindings struct {
	Findings []struct {
		Property  string `json:"property"`
		Invariant string `json:"invariant"`
		Signature string `json:"signature"`
		What      string `json:"what"`
	} `json:"findings"`
	Fixed []string `json:"fixed"`
}

// LoadKnown reads the known-findings file (missing file = none).
func LoadKnown(path string) (*KnownFindings, error) {
	var k KnownFindings
	b, err := os.ReadFile(path)
	if err != nil {
		if os.IsNotExist(err) {
			return &k, nil
		}
		return nil, err
	}
	return &k, json.Unmarshal(b, &k)
}

// Match returns the description of the listed open finding that v is an
// instance of, or "". A finding matches only on property, invariant and its
// signature text, so that a different violation of the same property is
// still reported.
func (k *KnownFindings) Match(v *Violation) string {
	for _, f := range k.Findings {
		if f.Property == v.Property && f.Invariant == v.Invariant && f.Signature != "" && f.Signature == v.Signature {
			return f.What
		}
	}
	return ""
}
