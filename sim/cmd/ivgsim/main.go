// Command ivgsim is the deterministic simulator for reactivego/ivg.
//
//	ivgsim run    -prop C02 -tier quick|thorough [-seed N] [-workers N] [-verif DIR] [-repo DIR] [-cap DUR]
//	ivgsim worker (internal)
//	ivgsim replay -file F [-repo DIR]
//
// Exit codes: 0 the property held on everything explored (or only listed
// known findings fired); 1 at least one VIOLATION line was printed; 2 build,
// worker or watchdog trouble (never a verdict).
package main

import (
	"bytes"
	"encoding/binary"
	"encoding/json"
	"flag"
	"fmt"
	"os"
	"os/exec"
	"path/filepath"
	"runtime"
	"runtime/debug"
	"sort"
	"strconv"
	"sync"
	"sync/atomic"
	"syscall"
	"time"

	"verif/sim/props"
	"verif/sim/report"
	"verif/sim/tape"
	"verif/sim/world"
)

type workerResult struct {
	Worker     int                 `json:"worker"`
	CasesDone  int                 `json:"cases_done"`
	CasesTotal int                 `json:"cases_total"`
	Capped     bool                `json:"capped"`
	Counters   map[string]int64    `json:"counters"`
	Samples    []interface{}       `json:"samples"`
	Violations []*report.Violation `json:"violations"`
	Digest     uint64              `json:"digest"`
	Trouble    string              `json:"trouble,omitempty"`
}

// cpuTime is the CPU time this process has consumed. The hang watchdog
// counts CPU seconds, not wall seconds: a reader that spins burns CPU, a
// worker that is merely starved on a busy machine does not, and must not be
// reported as a hang of the code under test.
func cpuTime() time.Duration {
	var ru syscall.Rusage
	if syscall.Getrusage(syscall.RUSAGE_SELF, &ru) != nil {
		return 0
	}
	return time.Duration(ru.Utime.Nano() + ru.Stime.Nano())
}

const (
	hangAfter  = 20 * time.Second // of CPU time without a progress beacon
	stallAfter = 15 * time.Minute // of wall time without a progress beacon: trouble, never a verdict
	heapLimit  = 1536 << 20
	shrinkMax  = 2500
	shrinkTime = 45 * time.Second
)

func bitsFor(tier string) uint {
	if tier == "thorough" {
		return 28
	}
	return 25
}

func main() {
	if len(os.Args) < 2 {
		fmt.Fprintln(os.Stderr, "usage: ivgsim run|worker|replay ...")
		os.Exit(2)
	}
	switch os.Args[1] {
	case "run":
		os.Exit(cmdRun(os.Args[2:]))
	case "worker":
		os.Exit(cmdWorker(os.Args[2:]))
	case "replay":
		os.Exit(cmdReplay(os.Args[2:]))
	case "probe":
		os.Exit(cmdProbe(os.Args[2:]))
	case "case":
		os.Exit(cmdCase(os.Args[2:]))
	case "list":
		ids := []string{}
		for id := range props.All {
			ids = append(ids, id)
		}
		sort.Strings(ids)
		for _, id := range ids {
			fmt.Println(id)
		}
		os.Exit(0)
	}
	fmt.Fprintln(os.Stderr, "unknown subcommand", os.Args[1])
	os.Exit(2)
}

func caseSeed(seed uint64, prop, tier string, i int) uint64 {
	return tape.Mix(tape.MixString(tape.MixString(seed, prop), tier), uint64(i))
}

func devNullStdout() {
	// DestinationLogger and RasterizerLogger print to os.Stdout; the simulated
	// parties' chatter goes to /dev/null. The harness itself reports through
	// the result files and the parent's stdout.
	if f, err := os.OpenFile(os.DevNull, os.O_WRONLY, 0); err == nil {
		os.Stdout = f
	}
}

// ---------------------------------------------------------------------------

func cmdWorker(args []string) int {
	fs := flag.NewFlagSet("worker", flag.ExitOnError)
	propID := fs.String("prop", "", "")
	tier := fs.String("tier", "quick", "")
	seed := fs.Uint64("seed", 1, "")
	w := fs.Int("w", 0, "")
	n := fs.Int("n", 1, "")
	dir := fs.String("dir", "", "")
	repo := fs.String("repo", "/repo", "")
	capDur := fs.Duration("cap", time.Hour, "")
	scale := fs.Float64("scale", 1, "")
	lo := fs.Int("lo", 0, "first case index of this batch")
	hi := fs.Int("hi", 0, "one past the last case index of this batch (0 = all)")
	batch := fs.String("batch", "a", "batch label (result file names)")
	fs.Parse(args)
	world.RepoDir = *repo
	p := props.All[*propID]
	if p == nil {
		fmt.Fprintln(os.Stderr, "unknown property", *propID)
		return 2
	}
	realStdout := os.Stdout
	_ = realStdout
	devNullStdout()
	res := &workerResult{Worker: *w}
	resPath := filepath.Join(*dir, fmt.Sprintf("worker-%s-%d.json", *batch, *w))
	writeRes := func() {
		b, _ := json.Marshal(res)
		os.WriteFile(resPath, b, 0o644)
	}
	var corpus []world.File
	if p.NeedsCorpus {
		var err error
		corpus, err = world.LoadCorpus()
		if err != nil {
			res.Trouble = "corpus: " + err.Error()
			writeRes()
			return 2
		}
	}
	stats := report.NewStats(bitsFor(*tier))
	var beacon uint64
	ctx := props.NewCtx(*tier, stats, corpus, &beacon)
	total := p.Cases(ctx)
	if *hi <= 0 || *hi > total {
		*hi = total
	}
	// -scale shrinks a batch proportionally (self-tests)
	if *scale < 1 {
		*hi = *lo + int(float64(*hi-*lo)**scale)
		if *hi <= *lo {
			*hi = *lo + 1
		}
	}
	res.CasesTotal = *hi - *lo

	// watchdog: no progress beacon for hangAfter, or a heap beyond heapLimit,
	// ends the worker. For a property that itself states termination and
	// bounded work this is a violation of the property, reported with the
	// literal case in flight; for any other property it is trouble (exit 2).
	var inFlight int32
	var mu sync.Mutex
	curCase, curSeed := -1, uint64(0)
	go func() {
		last, lastChange, lastCPU := uint64(0), time.Now(), cpuTime()
		var ms runtime.MemStats
		for {
			time.Sleep(250 * time.Millisecond)
			b := atomic.LoadUint64(&beacon)
			if b != last || atomic.LoadInt32(&inFlight) == 0 {
				last, lastChange, lastCPU = b, time.Now(), cpuTime()
			}
			runtime.ReadMemStats(&ms)
			limit := hangAfter
			if !p.HangIsViolation {
				// for properties that do not themselves state termination a long
				// case is only trouble, and some of their cases legitimately spend
				// a while inside golang.org/x/image/vector
				limit = 10 * hangAfter
			}
			hung := cpuTime()-lastCPU > limit
			oom := ms.HeapAlloc > heapLimit
			if oom && p.HangIsViolation {
				// What counts is what the read holds on to, not garbage the
				// collector has not got to yet: on a heavily oversubscribed machine
				// the concurrent collector's workers are descheduled for seconds and
				// the heap overshoots its goal by far although little of it is
				// live. Collect, then look again.
				runtime.GC()
				runtime.ReadMemStats(&ms)
				oom = ms.HeapAlloc > heapLimit
			}
			if !hung && !oom && time.Since(lastChange) > stallAfter {
				mu.Lock()
				res.Trouble = fmt.Sprintf("watchdog: no progress for %v of wall time in case %d (machine stalled?)", stallAfter, curCase)
				res.Counters = stats.Counters
				writeRes()
				os.Exit(4)
			}
			if !hung && !oom {
				continue
			}
			mu.Lock()
			kind, msg := "hang", fmt.Sprintf("no progress for %v of CPU time inside one read", hangAfter)
			if oom {
				kind, msg = "oom", fmt.Sprintf("heap grew to %d MiB inside one read", ms.HeapAlloc>>20)
			}
			if p.HangIsViolation && ctx.Literal() != nil {
				v := &report.Violation{Property: p.ID, Invariant: p.ID + "." + kind, Message: msg, Tape: ctx.Literal(),
					Tier: *tier, Seed: *seed, Case: curCase, CaseSeed: curSeed, Signature: p.ID + "." + kind,
					Trace: []string{"reported by the watchdog; the tape is the literal form of the case in flight"}}
				res.Violations = append(res.Violations, v)
			} else {
				res.Trouble = fmt.Sprintf("watchdog: %s in case %d", msg, curCase)
			}
			res.Counters = stats.Counters
			writeRes()
			os.Exit(3)
		}
	}()

	deadline := time.Now().Add(*capDur)
	for i := *lo + *w; i < *hi; i += *n {
		if time.Now().After(deadline) {
			res.Capped = true
			break
		}
		cs := caseSeed(*seed, p.ID, *tier, i)
		var prefix []uint64
		if p.Prefix != nil {
			prefix = p.Prefix(ctx, i)
		}
		t := tape.New(cs, prefix...)
		mu.Lock()
		curCase, curSeed = i, cs
		mu.Unlock()
		ctx.SetLiteral(nil)
		ctx.Fold(uint64(i))
		atomic.StoreInt32(&inFlight, 1)
		v := p.Run(ctx, t)
		atomic.StoreInt32(&inFlight, 0)
		res.Digest += ctx.TakeDigest()
		res.CasesDone++
		if v == nil {
			continue
		}
		v.Tier, v.Seed, v.Case, v.CaseSeed = *tier, *seed, i, cs
		atomic.StoreInt32(&inFlight, 1)
		fv, trouble := finalize(p, ctx, t, v)
		atomic.StoreInt32(&inFlight, 0)
		if trouble != "" {
			res.Trouble = trouble
			break
		}
		res.Violations = append(res.Violations, fv)
		if len(res.Violations) >= 3 {
			break
		}
	}
	mu.Lock()
	res.Counters = stats.Counters
	res.Samples = stats.Samples
	writeRes()
	mu.Unlock()
	// bitmap
	bm := stats.Bitmap()
	buf := make([]byte, 8*len(bm))
	for i, x := range bm {
		binary.LittleEndian.PutUint64(buf[8*i:], x)
	}
	os.WriteFile(filepath.Join(*dir, fmt.Sprintf("worker-%s-%d.bits", *batch, *w)), buf, 0o644)
	if res.Trouble != "" {
		return 2
	}
	return 0
}

// finalize confirms that the violation replays from its tape, shrinks the
// tape while the same invariant fires, and regenerates message and trace
// from the minimised tape.
func finalize(p *props.Property, ctx *props.Ctx, t *tape.Tape, v *report.Violation) (*report.Violation, string) {
	q := ctx.Quiet()
	vt := v.Tape
	if vt == nil {
		vt = t.Values()
	}
	if p.FreshProcessReplay {
		// a violation that consists of a one-time write to process-wide state
		// (a lazily filled table, a cache) cannot fire twice in one process:
		// the parent confirms and shrinks it in fresh child processes
		v.Tape, v.TapeLen0 = vt, len(vt)
		if v.Signature == "" {
			v.Signature = v.Invariant
		}
		return v, ""
	}
	same := func(c []uint64) *report.Violation {
		v2 := p.Run(q, tape.Replay(c))
		q.TakeDigest()
		if v2 != nil && v2.Invariant == v.Invariant {
			return v2
		}
		return nil
	}
	if same(vt) == nil {
		return nil, fmt.Sprintf("NONDETERMINISTIC: case %d of %s fired %s (%s) but its tape does not reproduce it", v.Case, p.ID, v.Invariant, v.Message)
	}
	kp := v.KeepPrefix
	if kp > len(vt) {
		kp = len(vt)
	}
	head := append([]uint64(nil), vt[:kp]...)
	tail, evals := tape.Shrink(vt[kp:], func(c []uint64) bool { return same(append(append([]uint64(nil), head...), c...)) != nil }, shrinkMax, shrinkTime)
	shrunk := append(head, tail...)
	fv := same(shrunk)
	if fv == nil { // cannot happen: Shrink only keeps tapes that passed
		fv, shrunk = same(vt), vt
	}
	fv.Tape = shrunk
	fv.Tier, fv.Seed, fv.Case, fv.CaseSeed = v.Tier, v.Seed, v.Case, v.CaseSeed
	fv.Shrunk, fv.ShrinkRun, fv.TapeLen0 = true, evals, len(vt)
	if fv.Signature == "" {
		fv.Signature = fv.Invariant
	}
	fv.Trace = withAsFound(fv.Trace, v)
	return fv, ""
}

// withAsFound keeps, below the minimised trace, how the case looked when it
// was found (which file, which faults, which schedule), which minimisation
// may have simplified away.
func withAsFound(minimised []string, found *report.Violation) []string {
	out := append([]string{}, minimised...)
	if len(found.Trace) == 0 {
		return out
	}
	out = append(out, "--- as found, before minimisation: "+found.Message)
	n := len(found.Trace)
	if n > 12 {
		n = 12
	}
	for _, l := range found.Trace[:n] {
		out = append(out, "    "+l)
	}
	return out
}

// ---------------------------------------------------------------------------

func cmdRun(args []string) int {
	fs := flag.NewFlagSet("run", flag.ExitOnError)
	propID := fs.String("prop", "", "property id")
	tier := fs.String("tier", "quick", "quick|thorough")
	seed := fs.Uint64("seed", 1, "VERIF_SEED")
	workers := fs.Int("workers", runtime.NumCPU(), "worker processes")
	verif := fs.String("verif", "/verif", "verif directory (evidence, replays, known findings)")
	repo := fs.String("repo", "/repo", "tree under test")
	capDur := fs.Duration("cap", 0, "wall-clock cap (0 = tier default)")
	scale := fs.Float64("scale", 1, "scale the number of cases (self-tests only)")
	noEvidence := fs.Bool("no-evidence", false, "do not write the evidence file (self-tests)")
	digestOnly := fs.Bool("digest", false, "print the run digest line")
	noDetSlice := fs.Bool("no-determinism-slice", false, "skip the determinism slice")
	gomaxprocs := fs.Int("gomaxprocs", 2, "GOMAXPROCS of each worker")
	fs.Parse(args)
	p := props.All[*propID]
	if p == nil {
		fmt.Fprintln(os.Stderr, "unknown property", *propID)
		return 2
	}
	if *tier != "quick" && *tier != "thorough" {
		fmt.Fprintln(os.Stderr, "tier must be quick or thorough")
		return 2
	}
	if *capDur == 0 {
		*capDur = 8 * time.Minute
		if *tier == "thorough" {
			*capDur = 40 * time.Minute
		}
	}
	start := time.Now()
	dir, err := os.MkdirTemp("", "ivgsim-run-")
	if err != nil {
		fmt.Fprintln(os.Stderr, err)
		return 2
	}
	defer os.RemoveAll(dir)
	fmt.Printf("ivgsim: property=%s tier=%s VERIF_SEED=%d workers=%d repo=%s\n", p.ID, *tier, *seed, *workers, *repo)

	// Batches: every property has one batch run by this binary; a property
	// with a race arm has a second one run by the binary built with -race.
	type batchT struct {
		label  string
		bin    string
		lo, hi int
		env    []string
	}
	pctx := props.NewCtx(*tier, nil, nil, nil)
	if p.NeedsCorpus {
		world.RepoDir = *repo
		if c, err := world.LoadCorpus(); err == nil {
			pctx = props.NewCtx(*tier, nil, c, nil)
		}
	}
	totalCases := p.Cases(pctx)
	batches := []batchT{{label: "a", bin: os.Args[0], lo: 0, hi: totalCases}}
	raceNote := ""
	raceBin := os.Getenv("IVGSIM_RACE_BIN")
	if p.RaceFrom != nil {
		from := p.RaceFrom(pctx)
		batches[0].hi = from
		if raceBin != "" {
			logPrefix := filepath.Join(dir, "race")
			batches = append(batches, batchT{label: "r", bin: raceBin, lo: from, hi: totalCases,
				env: []string{"GORACE=halt_on_error=0 exitcode=0 log_path=" + logPrefix, "IVGSIM_RACE_LOG=" + logPrefix}})
			raceNote = "race arm ran with the binary built with -race"
		} else {
			raceNote = "race arm NOT run: no binary built with -race was provided (IVGSIM_RACE_BIN); " + os.Getenv("IVGSIM_RACE_NOTE")
			fmt.Println("ivgsim: " + raceNote)
		}
	}
	trouble := []string{}
	stats := report.NewStats(bitsFor(*tier))
	var viols []*report.Violation
	casesDone, casesTotal, capped := 0, 0, false
	var digest uint64
	for _, bt := range batches {
		type done struct {
			w    int
			err  error
			code int
		}
		ch := make(chan done, *workers)
		for w := 0; w < *workers; w++ {
			w := w
			cmd := exec.Command(bt.bin, "worker", "-prop", p.ID, "-tier", *tier, "-seed", strconv.FormatUint(*seed, 10),
				"-w", strconv.Itoa(w), "-n", strconv.Itoa(*workers), "-dir", dir, "-repo", *repo, "-cap", capDur.String(),
				"-scale", strconv.FormatFloat(*scale, 'g', -1, 64), "-lo", strconv.Itoa(bt.lo), "-hi", strconv.Itoa(bt.hi), "-batch", bt.label)
			cmd.Env = append(append(os.Environ(), "GOMAXPROCS="+strconv.Itoa(*gomaxprocs)), bt.env...)
			cmd.Stderr = os.Stderr
			go func() {
				err := cmd.Run()
				code := 0
				if ee, ok := err.(*exec.ExitError); ok {
					code = ee.ExitCode()
				} else if err != nil {
					code = -1
				}
				ch <- done{w, err, code}
			}()
		}
		for i := 0; i < *workers; i++ {
			d := <-ch
			if d.code != 0 && d.code != 3 && d.code != 4 {
				trouble = append(trouble, fmt.Sprintf("worker %s%d exited with %d (%v)", bt.label, d.w, d.code, d.err))
			}
		}
		for w := 0; w < *workers; w++ {
			b, err := os.ReadFile(filepath.Join(dir, fmt.Sprintf("worker-%s-%d.json", bt.label, w)))
			if err != nil {
				trouble = append(trouble, fmt.Sprintf("worker %s%d left no result: %v", bt.label, w, err))
				continue
			}
			var r workerResult
			if err := json.Unmarshal(b, &r); err != nil {
				trouble = append(trouble, fmt.Sprintf("worker %s%d result unreadable: %v", bt.label, w, err))
				continue
			}
			if r.Trouble != "" {
				trouble = append(trouble, fmt.Sprintf("worker %s%d: %s", bt.label, w, r.Trouble))
			}
			stats.MergeCounters(r.Counters)
			for _, s := range r.Samples {
				stats.Sample(8, s)
			}
			viols = append(viols, r.Violations...)
			casesDone += r.CasesDone
			capped = capped || r.Capped
			digest += r.Digest
			if bb, err := os.ReadFile(filepath.Join(dir, fmt.Sprintf("worker-%s-%d.bits", bt.label, w))); err == nil {
				bm := make([]uint64, len(bb)/8)
				for i := range bm {
					bm[i] = binary.LittleEndian.Uint64(bb[8*i:])
				}
				stats.MergeBitmap(bm)
			}
		}
		casesTotal += bt.hi - bt.lo
	}
	if *scale < 1 {
		casesTotal = casesDone
	}
	// Determinism slice: the first cases of the batch are run twice more, at
	// other worker counts and GOMAXPROCS, and their digests must agree. A
	// divergence is trouble (a forgotten source of nondeterminism in the
	// harness or in the tree), never a verdict; the full self-test is
	// `./check selftest determinism`.
	detNote := ""
	if !*noDetSlice && len(viols) == 0 {
		nSlice := 120
		if *tier == "thorough" {
			nSlice = 600
		}
		if nSlice > batches[0].hi {
			nSlice = batches[0].hi
		}
		var digests []uint64
		for _, cfg := range [][2]int{{3, 1}, {5, 4}} {
			var d uint64
			var wg sync.WaitGroup
			var mu sync.Mutex
			for w := 0; w < cfg[0]; w++ {
				w := w
				wg.Add(1)
				go func() {
					defer wg.Done()
					label := fmt.Sprintf("d%d", cfg[0])
					cmd := exec.Command(os.Args[0], "worker", "-prop", p.ID, "-tier", *tier, "-seed", strconv.FormatUint(*seed, 10),
						"-w", strconv.Itoa(w), "-n", strconv.Itoa(cfg[0]), "-dir", dir, "-repo", *repo, "-cap", capDur.String(),
						"-lo", "0", "-hi", strconv.Itoa(nSlice), "-batch", label)
					cmd.Env = append(os.Environ(), "GOMAXPROCS="+strconv.Itoa(cfg[1]))
					cmd.Run()
					if b, err := os.ReadFile(filepath.Join(dir, fmt.Sprintf("worker-%s-%d.json", label, w))); err == nil {
						var r workerResult
						if json.Unmarshal(b, &r) == nil {
							mu.Lock()
							d += r.Digest
							mu.Unlock()
						}
					}
				}()
			}
			wg.Wait()
			digests = append(digests, d)
		}
		if digests[0] == digests[1] {
			detNote = fmt.Sprintf("first %d cases run twice more, with 3 workers at GOMAXPROCS=1 and 5 workers at GOMAXPROCS=4: digests equal (%016x)", nSlice, digests[0])
		} else {
			detNote = fmt.Sprintf("DIVERGED on the first %d cases: %016x vs %016x", nSlice, digests[0], digests[1])
			trouble = append(trouble, "determinism slice "+detNote)
		}
	}
	wall := time.Since(start).Seconds()

	// one report per invariant: the shortest tape
	sort.SliceStable(viols, func(i, j int) bool {
		if viols[i].Invariant != viols[j].Invariant {
			return viols[i].Invariant < viols[j].Invariant
		}
		if len(viols[i].Tape) != len(viols[j].Tape) {
			return len(viols[i].Tape) < len(viols[j].Tape)
		}
		return viols[i].Case < viols[j].Case
	})
	if p.FreshProcessReplay {
		done := map[string]bool{}
		var keep []*report.Violation
		for _, v := range viols {
			if done[v.Invariant] {
				continue
			}
			done[v.Invariant] = true
			fv, note := shrinkInChildren(p, v, *repo)
			if fv == nil {
				trouble = append(trouble, note)
				continue
			}
			keep = append(keep, fv)
		}
		viols = keep
	}
	known, err := report.LoadKnown(filepath.Join(*verif, "known_findings.json"))
	if err != nil {
		trouble = append(trouble, "known_findings.json: "+err.Error())
		known = &report.KnownFindings{}
	}
	nViol := 0
	seen := map[string]bool{}
	for _, v := range viols {
		if what := known.Match(v); what != "" {
			if !seen["k"+v.Signature] {
				fmt.Printf("KNOWN-FINDING: property=%s %s\n", v.Property, what)
				seen["k"+v.Signature] = true
			}
			continue
		}
		if seen[v.Invariant] {
			continue
		}
		seen[v.Invariant] = true
		nViol++
		path, err := report.WriteReplay(filepath.Join(*verif, "replays"), v)
		if err != nil {
			trouble = append(trouble, "cannot write replay file: "+err.Error())
			path = "(unwritten)"
		}
		fmt.Printf("invariant %s: %s\n", v.Invariant, v.Message)
		for _, l := range v.Trace {
			fmt.Println("    " + l)
		}
		fmt.Printf("    case %d, case seed %d, tape %d values (%d before shrinking, %d re-executions)\n", v.Case, v.CaseSeed, len(v.Tape), v.TapeLen0, v.ShrinkRun)
		fmt.Printf("VIOLATION property=%s replay=%s\n", v.Property, path)
	}

	evals := stats.Counters["evaluations"]
	if evals == 0 {
		evals = int64(casesDone)
	}
	if !*noEvidence {
		ev := p.Describe(*tier, stats, casesDone)
		cov := map[string]interface{}{
			"evaluations":                     evals,
			"distinct_nontrivial":             stats.DistinctCount(),
			"rule":                            ev.Rule,
			"samples":                         stats.Samples,
			"cases_done":                      casesDone,
			"cases_planned":                   casesTotal,
			"stopped_early_by_wall_clock_cap": capped,
			"runs_per_hour":                   int64(float64(evals) / wall * 3600),
			"workers":                         *workers,
			"case_seeds":                      fmt.Sprintf("splitmix64(VERIF_SEED=%d, %q, %q, case index 0..%d)", *seed, p.ID, *tier, casesTotal-1),
			"first_case_seed":                 caseSeed(*seed, p.ID, *tier, 0),
			"last_case_seed":                  caseSeed(*seed, p.ID, *tier, casesTotal-1),
			"run_digest":                      fmt.Sprintf("%016x", digest),
			"exhaustive":                      ev.Exhaustive,
		}
		if raceNote != "" {
			cov["race_arm"] = raceNote
		}
		if detNote != "" {
			cov["determinism_slice"] = detNote
		}
		if len(stats.Samples) == 0 {
			cov["samples"] = []interface{}{"(no sample recorded)"}
		}
		for k, v := range ev.Extra {
			cov[k] = v
		}
		out := map[string]interface{}{
			"property_id": p.ID,
			"tier":        *tier,
			"seed":        *seed,
			"level":       p.Level,
			"coverage":    cov,
			"assumptions": ev.Assumptions,
			"wall_s":      wall,
			"violations":  nViol,
		}
		b, _ := json.MarshalIndent(out, "", " ")
		os.MkdirAll(filepath.Join(*verif, "evidence"), 0o755)
		if err := os.WriteFile(filepath.Join(*verif, "evidence", p.ID+".json"), b, 0o644); err != nil {
			trouble = append(trouble, "cannot write evidence: "+err.Error())
		}
	}
	fmt.Printf("ivgsim: %s %s: %d/%d cases, %d evaluations, %d distinct non-trivial, %d violation(s), %.1fs%s\n",
		p.ID, *tier, casesDone, casesTotal, evals, stats.DistinctCount(), nViol, wall, map[bool]string{true: " (stopped early by wall-clock cap)", false: ""}[capped])
	if *digestOnly {
		fmt.Printf("DIGEST %s %s seed=%d %016x\n", p.ID, *tier, *seed, digest)
	}
	if nViol > 0 {
		return 1
	}
	if len(trouble) > 0 {
		for _, t := range trouble {
			fmt.Fprintln(os.Stderr, "ivgsim: TROUBLE:", t)
		}
		return 2
	}
	return 0
}

// probeChild runs one tape in a fresh process and returns the violation it
// produced, if it is the wanted invariant.
func probeChild(p *props.Property, tier, repo, invariant string, tp []uint64) *report.Violation {
	in, _ := json.Marshal(map[string]interface{}{"tape": tp})
	bin := os.Args[0]
	env := append(os.Environ(), "GOMAXPROCS=2")
	if p.RaceFrom != nil && len(tp) > 0 && tp[0]%2 == 1 {
		// a race-arm case: it only means something in the -race binary
		rb := os.Getenv("IVGSIM_RACE_BIN")
		if rb == "" {
			return nil
		}
		d, err := os.MkdirTemp("", "ivgsim-probe-")
		if err != nil {
			return nil
		}
		defer os.RemoveAll(d)
		lp := filepath.Join(d, "race")
		bin = rb
		env = append(env, "GORACE=halt_on_error=0 exitcode=0 log_path="+lp, "IVGSIM_RACE_LOG="+lp)
	}
	cmd := exec.Command(bin, "probe", "-prop", p.ID, "-tier", tier, "-repo", repo)
	cmd.Stdin = bytes.NewReader(in)
	cmd.Env = env
	out, err := cmd.Output()
	if err != nil && len(out) == 0 {
		return nil
	}
	var v report.Violation
	if json.Unmarshal(out, &v) != nil || v.Invariant != invariant {
		return nil
	}
	return &v
}

func shrinkInChildren(p *props.Property, v *report.Violation, repo string) (*report.Violation, string) {
	if probeChild(p, v.Tier, repo, v.Invariant, v.Tape) == nil {
		return nil, fmt.Sprintf("NONDETERMINISTIC: case %d of %s fired %s (%s) but its tape does not reproduce it in a fresh process", v.Case, p.ID, v.Invariant, v.Message)
	}
	shrunk, evals := tape.Shrink(v.Tape, func(c []uint64) bool { return probeChild(p, v.Tier, repo, v.Invariant, c) != nil }, 1500, 240*time.Second)
	fv := probeChild(p, v.Tier, repo, v.Invariant, shrunk)
	if fv == nil {
		fv, shrunk = probeChild(p, v.Tier, repo, v.Invariant, v.Tape), v.Tape
		if fv == nil {
			return nil, "NONDETERMINISTIC: shrunk tape of " + v.Invariant + " stopped reproducing"
		}
	}
	fv.Tape = shrunk
	fv.Tier, fv.Seed, fv.Case, fv.CaseSeed = v.Tier, v.Seed, v.Case, v.CaseSeed
	fv.Shrunk, fv.ShrinkRun, fv.TapeLen0 = true, evals, len(v.Tape)
	if fv.Signature == "" {
		fv.Signature = fv.Invariant
	}
	fv.Trace = withAsFound(fv.Trace, v)
	return fv, ""
}

// cmdCase runs one case of a batch by its index (the same tape the batch
// would give it) and prints what happened: `ivgsim case -prop C17 -tier
// thorough -seed 1 -i 13291263`. With -tape it also prints the tape.
func cmdCase(args []string) int {
	fs := flag.NewFlagSet("case", flag.ExitOnError)
	propID := fs.String("prop", "", "")
	tier := fs.String("tier", "quick", "")
	seed := fs.Uint64("seed", 1, "")
	idx := fs.Int("i", 0, "")
	repo := fs.String("repo", "/repo", "")
	showTape := fs.Bool("tape", false, "")
	fs.Parse(args)
	world.RepoDir = *repo
	p := props.All[*propID]
	if p == nil {
		return 2
	}
	realStdout := os.Stdout
	devNullStdout()
	var corpus []world.File
	if p.NeedsCorpus {
		var err error
		if corpus, err = world.LoadCorpus(); err != nil {
			return 2
		}
	}
	var beacon uint64
	ctx := props.NewCtx(*tier, report.NewStats(20), corpus, &beacon)
	var prefix []uint64
	if p.Prefix != nil {
		prefix = p.Prefix(ctx, *idx)
	}
	t := tape.New(caseSeed(*seed, p.ID, *tier, *idx), prefix...)
	start := time.Now()
	done := make(chan *report.Violation, 1)
	go func() { done <- p.Run(ctx, t) }()
	select {
	case v := <-done:
		fmt.Fprintf(realStdout, "case %d finished in %v, %d tape values\n", *idx, time.Since(start), len(t.Values()))
		if *showTape {
			fmt.Fprintln(realStdout, t.Values())
		}
		if v != nil {
			fmt.Fprintf(realStdout, "invariant %s: %s\n", v.Invariant, v.Message)
			for _, l := range v.Trace {
				fmt.Fprintln(realStdout, "    "+l)
			}
			return 1
		}
		return 0
	case <-time.After(40 * time.Second):
		fmt.Fprintf(realStdout, "case %d still running after 40s; tape so far: %v\n", *idx, t.Values())
		buf := make([]byte, 1<<16)
		n := runtime.Stack(buf, true)
		fmt.Fprintf(realStdout, "%s\n", buf[:n])
		return 3
	}
}

// cmdProbe runs the tape given on stdin once and prints the violation (JSON)
// it produces, if any.
func cmdProbe(args []string) int {
	fs := flag.NewFlagSet("probe", flag.ExitOnError)
	propID := fs.String("prop", "", "")
	tier := fs.String("tier", "quick", "")
	repo := fs.String("repo", "/repo", "")
	fs.Parse(args)
	world.RepoDir = *repo
	p := props.All[*propID]
	if p == nil {
		return 2
	}
	var in struct {
		Tape []uint64 `json:"tape"`
	}
	if err := json.NewDecoder(os.Stdin).Decode(&in); err != nil {
		return 2
	}
	realStdout := os.Stdout
	devNullStdout()
	var corpus []world.File
	if p.NeedsCorpus {
		var err error
		if corpus, err = world.LoadCorpus(); err != nil {
			return 2
		}
	}
	var beacon uint64
	ctx := props.NewCtx(*tier, nil, corpus, &beacon)
	done := make(chan *report.Violation, 1)
	go func() { done <- p.Run(ctx, tape.Replay(in.Tape)) }()
	select {
	case v := <-done:
		if v == nil {
			return 1
		}
		b, _ := json.Marshal(v)
		realStdout.Write(b)
		return 0
	case <-time.After(60 * time.Second):
		return 2
	}
}

// ---------------------------------------------------------------------------

func cmdReplay(args []string) int {
	fs := flag.NewFlagSet("replay", flag.ExitOnError)
	file := fs.String("file", "", "replay file")
	repo := fs.String("repo", "/repo", "tree under test")
	fs.Parse(args)
	if *file == "" && fs.NArg() > 0 {
		*file = fs.Arg(0)
	}
	world.RepoDir = *repo
	v, err := report.ReadReplay(*file)
	if err != nil {
		fmt.Fprintln(os.Stderr, err)
		return 2
	}
	p := props.All[v.Property]
	if p == nil {
		fmt.Fprintln(os.Stderr, "unknown property", v.Property)
		return 2
	}
	if p.RaceFrom != nil && len(v.Tape) > 0 && v.Tape[0]%2 == 1 && !props.RaceEnabled() {
		// a race-arm case: hand over to the binary built with -race
		rb := os.Getenv("IVGSIM_RACE_BIN")
		if rb == "" {
			fmt.Fprintln(os.Stderr, "replay: this file needs the binary built with -race (IVGSIM_RACE_BIN)")
			return 2
		}
		d, err := os.MkdirTemp("", "ivgsim-replay-")
		if err != nil {
			return 2
		}
		defer os.RemoveAll(d)
		lp := filepath.Join(d, "race")
		cmd := exec.Command(rb, "replay", "-file", *file, "-repo", *repo)
		cmd.Env = append(os.Environ(), "GOMAXPROCS=1", "GORACE=halt_on_error=0 exitcode=0 log_path="+lp, "IVGSIM_RACE_LOG="+lp)
		cmd.Stdout, cmd.Stderr = os.Stdout, os.Stderr
		if err := cmd.Run(); err != nil {
			if ee, ok := err.(*exec.ExitError); ok {
				return ee.ExitCode()
			}
			return 2
		}
		return 0
	}
	realStdout := os.Stdout
	devNullStdout()
	debug.SetGCPercent(100)
	var corpus []world.File
	if p.NeedsCorpus {
		corpus, err = world.LoadCorpus()
		if err != nil {
			fmt.Fprintln(os.Stderr, err)
			return 2
		}
	}
	var beacon uint64
	ctx := props.NewCtx(v.Tier, nil, corpus, &beacon)
	resCh := make(chan *report.Violation, 1)
	go func() { resCh <- p.Run(ctx, tape.Replay(v.Tape)) }()
	last, lastCPU := uint64(0), cpuTime()
	var ms runtime.MemStats
	for {
		select {
		case got := <-resCh:
			if got == nil {
				fmt.Fprintf(realStdout, "replay: %s did not fire on this tree (recorded: %s)\n", v.Invariant, v.Message)
				return 0
			}
			fmt.Fprintf(realStdout, "invariant %s: %s\n", got.Invariant, got.Message)
			for _, l := range got.Trace {
				fmt.Fprintln(realStdout, "    "+l)
			}
			if got.Invariant != v.Invariant {
				fmt.Fprintf(realStdout, "replay: a different invariant fired (recorded: %s)\n", v.Invariant)
			}
			fmt.Fprintf(realStdout, "VIOLATION property=%s replay=%s\n", got.Property, *file)
			return 1
		case <-time.After(250 * time.Millisecond):
			b := atomic.LoadUint64(&beacon)
			if b != last {
				last, lastCPU = b, cpuTime()
			}
			runtime.ReadMemStats(&ms)
			hung, oom := cpuTime()-lastCPU > hangAfter, ms.HeapAlloc > heapLimit
			if oom && p.HangIsViolation {
				runtime.GC() // live data only, as in the worker's watchdog
				runtime.ReadMemStats(&ms)
				oom = ms.HeapAlloc > heapLimit
			}
			if hung || oom {
				kind := "hang"
				if oom {
					kind = "oom"
				}
				if p.HangIsViolation {
					fmt.Fprintf(realStdout, "invariant %s.%s: the read did not finish (recorded: %s)\n", p.ID, kind, v.Invariant)
					fmt.Fprintf(realStdout, "VIOLATION property=%s replay=%s\n", p.ID, *file)
					return 1
				}
				fmt.Fprintln(os.Stderr, "replay: watchdog expired")
				return 2
			}
		}
	}
}
