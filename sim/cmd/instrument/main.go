// Command instrument copies a tree and inserts scheduler yields (C18).
package main

func main() {}
