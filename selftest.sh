#!/usr/bin/env bash
# Self-tests of the machinery itself (DESIGN.md §4.5).
#
#   selftest.sh sensitivity [pattern]   every mutants/<prop>-*.patch must make `check <prop> quick` print VIOLATION
#                                       for that property; every mutants/neutral-*.patch must leave all checks silent
#   selftest.sh determinism [prop...]   same seed => same run digest across GOMAXPROCS 1/4/16 and worker counts
#   selftest.sh instrumentation         the instrumented scratch copy builds and passes the repository's own tests
#
# Works on scratch copies under $TMPDIR only; /repo and /verif/evidence are never touched.
set -u
export GOFLAGS=-mod=mod GOPROXY=off GOSUMDB=off GOTOOLCHAIN=local
VERIF="$(cd "$(dirname "$0")" && pwd)"
REPO="${VERIF_REPO:-/repo}"
what="${1:-}"; shift || true
TMP="$(mktemp -d "${TMPDIR:-/tmp}/ivgselftest.XXXXXXXX")"
trap 'rm -rf "$TMP"' EXIT

copy_tree() { # copy_tree <dst> : tracked + untracked files of the working tree, without .git
  mkdir -p "$1"
  ( cd "$REPO" && git ls-files -co --exclude-standard -z | xargs -0 cp --parents -t "$1" ) 2>/dev/null
}

case "$what" in
sensitivity)
  pat="${1:-}"
  fail=0; n=0
  for patch in "$VERIF"/mutants/*${pat}*.patch; do
    [ -f "$patch" ] || continue
    name="$(basename "$patch" .patch)"
    tree="$TMP/tree"; rm -rf "$tree"; copy_tree "$tree"
    if ! ( cd "$tree" && patch -s -p1 < "$patch" ); then echo "SELFTEST $name: patch does not apply"; fail=1; continue; fi
    if ! ( cd "$tree" && go build ./... && go test -vet=off -count=1 ./... >/dev/null 2>&1 ); then
      echo "SELFTEST $name: mutant does not build or fails the repository's own tests (not a valid mutant)"; fail=1; continue
    fi
    n=$((n+1))
    case "$name" in
      neutral-*)
        plist="C02 C07 C10 C17 C18"
        # a sidecar <name>.props restricts a neutral patch to the properties it is neutral for
        [ -f "$VERIF/mutants/$name.props" ] && plist="$(cat "$VERIF/mutants/$name.props")"
        for p in $plist; do
          [ -n "${SELFTEST_PROPS:-}" ] && case " $SELFTEST_PROPS " in *" $p "*) ;; *) continue;; esac
          out="$(VERIF_REPO="$tree" "$VERIF/check" "$p" quick -no-evidence -verif "$TMP/out" 2>&1)"; rc=$?
          if [ $rc -ne 0 ]; then echo "SELFTEST $name: FALSE ALARM from $p (exit $rc)"; echo "$out" | grep -E "VIOLATION|invariant|TROUBLE" | head -5; fail=1; else echo "SELFTEST $name: $p silent (ok)"; fi
        done
        ;;
      *)
        p="$(echo "${name%%-*}" | tr a-z A-Z)"
        out="$(VERIF_REPO="$tree" "$VERIF/check" "$p" quick -no-evidence -verif "$TMP/out" 2>&1)"; rc=$?
        if [ $rc -eq 1 ] && echo "$out" | grep -q "^VIOLATION property=$p "; then
          echo "SELFTEST $name: detected: $(echo "$out" | grep -E "^invariant" | head -3 | cut -c1-160 | tr '\n' '|')"
          # the replay file must reproduce the violation in a fresh process
          rp="$(echo "$out" | sed -n 's/^VIOLATION property=[A-Z0-9]* replay=//p' | head -1)"
          if [ -f "$rp" ]; then
            VERIF_REPO="$tree" "$VERIF/check" replay "$rp" >/dev/null 2>&1; rrc=$?
            [ $rrc -eq 1 ] || { echo "SELFTEST $name: REPLAY DID NOT REPRODUCE (exit $rrc)"; fail=1; }
            VERIF_REPO="$REPO" "$VERIF/check" replay "$rp" >/dev/null 2>&1; rrc=$?
            [ $rrc -eq 0 ] || { echo "SELFTEST $name: replay fires on the unmodified tree too (exit $rrc)"; fail=1; }
          fi
        else
          echo "SELFTEST $name: MISSED by $p quick (exit $rc)"; echo "$out" | tail -3; fail=1
        fi
        ;;
    esac
  done
  echo "SELFTEST sensitivity: $n mutants run, fail=$fail"
  exit $fail
  ;;
determinism)
  props="${*:-C02 C07 C10 C17 C18}"
  fail=0
  for p in $props; do
    for seed in ${SELFTEST_SEEDS:-1 2 3}; do
      ref=""
      for cfg in "16 2" "16 1" "5 4" "3 16"; do
        set -- $cfg
        d="$(VERIF_SEED=$seed VERIF_WORKERS=$1 "$VERIF/check" "$p" quick -no-evidence -verif "$TMP/out" -digest -gomaxprocs $2 -scale "${SELFTEST_SCALE:-0.2}" 2>&1 | grep '^DIGEST' )"
        [ -n "$d" ] || { echo "SELFTEST determinism $p seed=$seed workers=$1 gomaxprocs=$2: no digest"; fail=1; continue; }
        if [ -z "$ref" ]; then ref="$d"; elif [ "$d" != "$ref" ]; then echo "SELFTEST determinism $p seed=$seed: DIVERGED workers=$1 gomaxprocs=$2: $d vs $ref"; fail=1; fi
      done
      echo "SELFTEST determinism $p seed=$seed: $ref"
    done
  done
  exit $fail
  ;;
instrumentation)
  ( cd "$VERIF/sim" && sed "s#=> /repo\$#=> $REPO#" go.mod > "$TMP/go.mod" && cat "$REPO/go.sum" go.sum | sort -u > "$TMP/go.sum" && go build -modfile="$TMP/go.mod" -o "$TMP/instrument" ./cmd/instrument ) || exit 2
  "$TMP/instrument" -src "$REPO" -dst "$TMP/tree" || exit 2
  ( cd "$TMP/tree" && go build ./... && go vet ./verifsim && go test -vet=off -count=1 ./... ) || { echo "SELFTEST instrumentation: FAILED"; exit 1; }
  echo "SELFTEST instrumentation: instrumented copy builds and passes the repository's tests"
  ;;
models)
  # unit tests of the harness's own models and tools (validator never stricter than the implementation,
  # automaton table, shrinker, reflective hasher), against the tree under test
  ( cd "$VERIF/sim" && sed "s#=> /repo\$#=> $REPO#" go.mod > "$TMP/go.mod" && cat "$REPO/go.sum" go.sum | sort -u > "$TMP/go.sum" && go test -modfile="$TMP/go.mod" -count=1 ./model ./world ./tape ./props ) || { echo "SELFTEST models: FAILED"; exit 1; }
  echo "SELFTEST models: ok"
  ;;
*)
  echo "usage: selftest.sh sensitivity [pattern] | determinism [props] | instrumentation | models" >&2; exit 2;;
esac
