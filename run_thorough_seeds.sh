#!/usr/bin/env bash
# Runs the thorough tier of every property for several seeds, writing evidence and replays into a
# scratch directory (so committed evidence is untouched). Used for long background sweeps:
#   vp run --timeout 6h -- ./run_thorough_seeds.sh 1 2 3
cd "$(dirname "$0")"
out="${THOROUGH_OUT:-./thorough_out}"
mkdir -p "$out"
for seed in "$@"; do
  for p in C02 C07 C10 C17 C18; do
    start=$(date +%s)
    VERIF_SEED=$seed ./check $p thorough -verif "$out/seed$seed" > "$out/$p-seed$seed.log" 2>&1
    rc=$?
    echo "thorough $p seed=$seed exit=$rc wall=$(( $(date +%s) - start ))s $(tail -1 "$out/$p-seed$seed.log")"
  done
done
