#!/usr/bin/env bash
./seeded_all.sh 0 3 > seeded_all_0.log 2>&1 &
p0=$!
./seeded_all.sh 1 3 > seeded_all_1.log 2>&1 &
p1=$!
./seeded_all.sh 2 3 > seeded_all_2.log 2>&1
wait $p0 $p1
wc -l seeded_all_*.log
