#!/usr/bin/env bash
./selftest.sh sensitivity c02- > sens_c02.log 2>&1
grep SELFTEST sens_c02.log | tail -1
for d in seeded/c02*/; do n=$(basename $d); ./seeded_eval.sh $n C02 2>&1 | sed "s/^/[$n] /"; done > seeded_c02.log 2>&1
grep -c "exit 1" seeded_c02.log; grep "check C02" seeded_c02.log | grep -v "exit 1"
