import sys
pid, wt, focus = sys.argv[1], sys.argv[2], sys.argv[3]
prop = open('/tmp/prop-%s.txt'%pid).read()  # written from properties.jsonl: id, title, statement, quantifier text
print(f"""You are working in a scratch git worktree of the Go repository reactivego/ivg at {wt} (an encoder, decoder, disassembler and rasterizer-backed renderer for the IconVG FFV0 binary vector-icon format). Work ONLY inside {wt}; never touch /repo, /verif or any other directory (a throw-away file under /tmp is fine). There is no network. Before every go command run: export GOFLAGS=-mod=mod GOPROXY=off GOSUMDB=off GOTOOLCHAIN=local
The existing test suite is: go test -vet=off -count=1 ./...   (30 tests, all pass on the unchanged tree).

Here is a semantic property of the library that is supposed to hold on the current code:

{prop}
Your task: make ONE small change to the library source (non-test .go files, outside cmd/ and testdata/) that BREAKS this property, while
 (a) still compiling,
 (b) still passing the whole existing test suite, unedited, and
 (c) looking like a plausible slip or well-meant refactor/optimisation that a maintainer could make and a reviewer could wave through.
The break must need something specific to manifest — a particular interleaving, a fault or abort at a particular point, a multi-step sequence of operations, an unusual input, or two cooperating code sites that each look fine on their own — and NOT be something that ordinary use would expose at once. Prefer subtle over blatant. Suggested focus (only a suggestion, pick what you find most convincing after reading the code): {focus}

Read the relevant code first (start with README.md, destination.go, then the packages the property talks about).

Deliverables, all inside {wt}:
 1. the source change itself, left applied and uncommitted in the worktree (keep it small, at most about 30 changed lines, no new dependencies);
 2. a demonstration: a NEW Go test file (do not edit existing test files) containing a test named TestSeededDemo, placed in whichever package directory is convenient, that FAILS with your change and PASSES without it. Verify both states yourself (e.g. save the source diff with `git diff -- '*.go' ':!*seeded*' > /tmp/<something>.patch`, revert the source files with git checkout, run the demo test, re-apply the patch with git apply, run it again). The demo must use only the public API of the library (plus its own helper types).
 3. a file {wt}/SEEDED.md stating: which clause of the property breaks, exactly what is needed for the break to manifest, and the commands you ran with their outcomes (existing suite with the change: pass; demo with the change: fail; demo without the change: pass).

When you are done, make sure the source change IS applied in the worktree, the existing suite passes with it (run `go test -vet=off -count=1 ./...` and ignore only your own TestSeededDemo failure), and reply with: a summary of the change (files, what and why it looks innocent), what it needs to manifest, and the demonstration outcome in both states.""")
